//! Scanner configurations (harness side), their PAR rendering, and the reference tokenizer that
//! implements the *documented* rules: longest match among the rules of the current state, first
//! declared wins on equal length, lookahead honoured, enter/push/pop (pop on empty keeps state).
//! Terminal matching uses the `regex` crate (a different engine than scnr2) on anchored slices.

use regex::Regex;

#[derive(Clone, Debug, PartialEq, Eq, Hash, serde::Serialize, serde::Deserialize)]
pub enum Switch {
    Enter(usize),
    Push(usize),
    Pop,
}

#[derive(Clone, Debug, PartialEq, Eq, Hash, serde::Serialize, serde::Deserialize)]
pub struct TermSpec {
    /// PAR spelling of the literal, e.g. `'a'`, `"ab"`, `/a+/`
    pub par: String,
    /// regex meaning of the literal
    pub regex: String,
    /// lookahead: (positive?, PAR spelling, regex)
    pub la: Option<(bool, String, String)>,
    /// scanner states the terminal is valid in
    pub states: Vec<usize>,
    /// state lists of further occurrences of the same terminal (parol accumulates the states of all
    /// occurrences); the occurrences themselves are written inline in `ScanCfg::body`
    #[serde(default)]
    pub more: Vec<Vec<usize>>,
}

impl TermSpec {
    /// the union of the states of all occurrences
    pub fn all_states(&self) -> Vec<usize> {
        let mut v = self.states.clone();
        for m in &self.more {
            for s in m {
                if !v.contains(s) {
                    v.push(*s);
                }
            }
        }
        v
    }
}

#[derive(Clone, Debug, PartialEq, Eq, Hash, serde::Serialize, serde::Deserialize)]
pub struct ModeSpec {
    pub name: String,
    pub auto_nl: bool,
    pub auto_ws: bool,
    pub allow_unmatched: bool,
    /// raw (unescaped) comment markers
    pub line_comments: Vec<String>,
    pub block_comments: Vec<(String, String)>,
    /// terminal indices skipped in this state
    pub skip: Vec<usize>,
    pub on: Vec<(usize, Switch)>,
}

impl ModeSpec {
    pub fn plain(name: &str) -> ModeSpec {
        ModeSpec {
            name: name.into(),
            auto_nl: true,
            auto_ws: true,
            allow_unmatched: false,
            line_comments: vec![],
            block_comments: vec![],
            skip: vec![],
            on: vec![],
        }
    }
}

#[derive(Clone, Debug, PartialEq, Eq, Hash, serde::Serialize, serde::Deserialize)]
pub struct ScanCfg {
    pub terms: Vec<TermSpec>,
    pub modes: Vec<ModeSpec>,
    pub lalr: bool,
    /// comment delimiters are written as raw literals ('..') if true, else as legacy strings with
    /// regex escaping
    pub raw_comment_literals: bool,
    /// PAR body of the start symbol (default: `{ T0 | T1 | .. }`)
    #[serde(default)]
    pub body: Option<String>,
}

pub fn raw_lit(s: &str) -> String {
    format!("'{}'", s.replace('\\', "\\\\").replace('\'', "\\'"))
}

fn comment_lit(s: &str, raw: bool) -> String {
    if raw { raw_lit(s) } else { format!("\"{}\"", regex::escape(s).replace('"', "\\\"")) }
}

impl ScanCfg {
    fn directives(&self, m: &ModeSpec, out: &mut String, indent: &str) {
        for c in &m.line_comments {
            out.push_str(&format!("{indent}%line_comment {}\n", comment_lit(c, self.raw_comment_literals)));
        }
        for (s, e) in &m.block_comments {
            out.push_str(&format!(
                "{indent}%block_comment {} {}\n",
                comment_lit(s, self.raw_comment_literals),
                comment_lit(e, self.raw_comment_literals)
            ));
        }
        if !m.auto_nl {
            out.push_str(&format!("{indent}%auto_newline_off\n"));
        }
        if !m.auto_ws {
            out.push_str(&format!("{indent}%auto_ws_off\n"));
        }
        if m.allow_unmatched {
            out.push_str(&format!("{indent}%allow_unmatched\n"));
        }
        if !m.skip.is_empty() {
            let l: Vec<String> = m.skip.iter().map(|i| format!("T{i}")).collect();
            out.push_str(&format!("{indent}%skip {}\n", l.join(", ")));
        }
        for (t, sw) in &m.on {
            let s = match sw {
                Switch::Enter(x) => format!("%enter {}", self.modes[*x].name),
                Switch::Push(x) => format!("%push {}", self.modes[*x].name),
                Switch::Pop => "%pop".to_string(),
            };
            out.push_str(&format!("{indent}%on T{t} {s}\n"));
        }
    }

    /// `S: { T0 | T1 | .. }; T0: <states>literal; ...`
    pub fn to_par(&self) -> String {
        let mut s = String::from("%start S\n");
        if self.lalr {
            s.push_str("%grammar_type 'LALR(1)'\n");
        }
        self.directives(&self.modes[0], &mut s, "");
        for m in &self.modes[1..] {
            s.push_str(&format!("%scanner {} {{\n", m.name));
            self.directives(m, &mut s, "    ");
            s.push_str("}\n");
        }
        if let Some(b) = &self.body {
            s.push_str(&format!("%%\nS: {b};\n"));
        } else {
            s.push_str("%%\nS: {");
            let in_s: Vec<usize> = (0..self.terms.len()).collect();
            for (n, i) in in_s.iter().enumerate() {
                if n > 0 {
                    s.push_str(" |");
                }
                s.push_str(&format!(" T{i}"));
            }
            s.push_str(" };\n");
        }
        let prefix = |states: &Vec<usize>| -> String {
            if *states == vec![0] {
                String::new()
            } else {
                let l: Vec<String> = states.iter().map(|x| self.modes[*x].name.clone()).collect();
                format!("<{}>", l.join(", "))
            }
        };
        let la_of = |t: &TermSpec| match &t.la {
            None => String::new(),
            Some((true, p, _)) => format!(" ?= {p}"),
            Some((false, p, _)) => format!(" ?! {p}"),
        };
        for (i, t) in self.terms.iter().enumerate() {
            s.push_str(&format!("T{i}: {}{}{};\n", prefix(&t.states), t.par, la_of(t)));
        }
        s
    }

    pub fn short(&self) -> String {
        self.to_par().replace('\n', " ").replace("%start S ", "")
    }
}

#[derive(Clone, Debug, PartialEq, Eq, Hash)]
pub enum RKind {
    Newline,
    Ws,
    LineComment,
    BlockComment,
    Term(usize),
    Unmatched,
}

#[derive(Clone, Debug, PartialEq, Eq, Hash)]
pub struct RTok {
    pub kind: RKind,
    pub start: usize,
    pub end: usize,
    pub mode: usize,
    /// skipped in its state by a %skip list
    pub state_skip: bool,
}

pub struct RefScanner {
    cfg: ScanCfg,
    term_rx: Vec<Regex>,
    la_rx: Vec<Option<Regex>>,
    nl: Regex,
    ws: Regex,
}

fn anchored(p: &str) -> Regex {
    Regex::new(&format!("^(?:{p})$")).unwrap_or_else(|e| panic!("reference regex {p}: {e}"))
}
fn prefix(p: &str) -> Regex {
    Regex::new(&format!("^(?:{p})")).unwrap_or_else(|e| panic!("reference regex {p}: {e}"))
}

impl RefScanner {
    pub fn new(cfg: &ScanCfg) -> RefScanner {
        RefScanner {
            term_rx: cfg.terms.iter().map(|t| anchored(&t.regex)).collect(),
            la_rx: cfg.terms.iter().map(|t| t.la.as_ref().map(|l| prefix(&l.2))).collect(),
            nl: anchored(r"\r\n|\r|\n"),
            ws: anchored(r"[\s--\r\n]+"),
            cfg: cfg.clone(),
        }
    }

    /// all candidate (end, priority, kind) at pos in mode m
    fn candidates(&self, text: &str, pos: usize, m: usize) -> Vec<(usize, usize, RKind)> {
        let mode = &self.cfg.modes[m];
        let mut c = vec![];
        let ends: Vec<usize> = text[pos..].char_indices().map(|(i, ch)| pos + i + ch.len_utf8()).collect();
        let mut prio = 0;
        if mode.auto_nl {
            for e in &ends {
                if self.nl.is_match(&text[pos..*e]) {
                    c.push((*e, prio, RKind::Newline));
                }
            }
        }
        prio += 1;
        if mode.auto_ws {
            for e in &ends {
                if self.ws.is_match(&text[pos..*e]) {
                    c.push((*e, prio, RKind::Ws));
                }
            }
        }
        prio += 1;
        for lc in &mode.line_comments {
            if text[pos..].starts_with(lc.as_str()) {
                // to the end of the line, line break (LF or CR LF) included; a lone CR does not
                // end the line (weaker reading, see DESIGN.md section 6)
                let rest = &text[pos + lc.len()..];
                let end = match rest.find('\n') {
                    Some(i) => pos + lc.len() + i + 1,
                    None => text.len(),
                };
                c.push((end, prio, RKind::LineComment));
            }
        }
        prio += 1;
        for (s, e) in &mode.block_comments {
            if text[pos..].starts_with(s.as_str()) {
                if let Some(i) = text[pos + s.len()..].find(e.as_str()) {
                    c.push((pos + s.len() + i + e.len(), prio, RKind::BlockComment));
                }
            }
        }
        prio += 1;
        for (ti, t) in self.cfg.terms.iter().enumerate() {
            if !t.all_states().contains(&m) {
                continue;
            }
            for e in &ends {
                if self.term_rx[ti].is_match(&text[pos..*e]) {
                    let la_ok = match (&t.la, &self.la_rx[ti]) {
                        (Some((positive, _, _)), Some(rx)) => rx.is_match(&text[*e..]) == *positive,
                        _ => true,
                    };
                    if la_ok {
                        c.push((*e, prio + ti, RKind::Term(ti)));
                    }
                }
            }
        }
        c
    }

    pub fn scan(&self, text: &str) -> Vec<RTok> {
        let mut out: Vec<RTok> = vec![];
        let mut pos = 0;
        let mut mode = 0usize;
        let mut stack: Vec<usize> = vec![];
        while pos < text.len() {
            let c = self.candidates(text, pos, mode);
            let best = c.iter().max_by(|a, b| a.0.cmp(&b.0).then(b.1.cmp(&a.1)));
            match best {
                None => {
                    let ch = text[pos..].chars().next().unwrap();
                    let end = pos + ch.len_utf8();
                    if let Some(last) = out.last_mut() {
                        if last.kind == RKind::Unmatched && last.end == pos && last.mode == mode {
                            last.end = end;
                            pos = end;
                            continue;
                        }
                    }
                    out.push(RTok { kind: RKind::Unmatched, start: pos, end, mode, state_skip: false });
                    pos = end;
                }
                Some((end, _, kind)) => {
                    let mut state_skip = false;
                    let mut next_mode = mode;
                    if let RKind::Term(ti) = kind {
                        state_skip = self.cfg.modes[mode].skip.contains(ti);
                        if let Some((_, sw)) = self.cfg.modes[mode].on.iter().find(|(t, _)| t == ti) {
                            match sw {
                                Switch::Enter(x) => next_mode = *x,
                                Switch::Push(x) => {
                                    stack.push(mode);
                                    next_mode = *x;
                                }
                                Switch::Pop => {
                                    if let Some(p) = stack.pop() {
                                        next_mode = p;
                                    }
                                }
                            }
                        }
                    }
                    out.push(RTok { kind: kind.clone(), start: pos, end: *end, mode, state_skip });
                    pos = *end;
                    mode = next_mode;
                }
            }
        }
        out
    }
}
