//! Run the real parol pipeline on a PAR text and bind the *generated source text* to the real
//! runtime in process (DESIGN.md section 3.2).

use std::any::Any;
use std::cell::{Cell, RefCell};
use std::collections::BTreeMap;
use std::rc::Rc;

use parol::parser::parol_grammar::GrammarType;
use parol::{
    CommonGeneratorConfig, GrammarConfig, ParserGeneratorConfig, calculate_lalr1_parse_table,
    calculate_lookahead_dfas, generate_lalr1_parser_source,
    generate_lexer_source, generate_parser_source, obtain_grammar_config_from_string,
};
use parol_runtime::lr_parser::{LR1State, LRAction, LRParseTable, LRParser, LRProduction};
use parol_runtime::parser::parse_tree_type::TreeConstruct;
use parol_runtime::parser::{LLKParser, LookaheadDFA, ParseType, Production, Trans};
use parol_runtime::{ParolError, ParseTreeType, Token, TokenStream, UserActionsTrait};
use scnr2::ScannerImpl;
use scnr2_generate::character_classes::CharacterClasses;
use scnr2_generate::dfa::Dfa;
use scnr2_generate::nfa::Nfa;
use scnr2_generate::pattern::{AutomatonType, Lookahead};
use scnr2_generate::scanner_data::{ScannerData, TransitionToNumericMode};

use crate::srcval::{SourceTables, Val, read_source};

#[derive(Clone, Debug, Default)]
pub struct GenCfg {
    pub trim: bool,
    pub recovery_disabled: bool,
    pub max_depth: Option<usize>,
    pub min_boxed: bool,
    pub range: bool,
    pub node_kind_enums: bool,
}
impl CommonGeneratorConfig for GenCfg {
    fn user_type_name(&self) -> &str {
        "G"
    }
    fn module_name(&self) -> &str {
        "g"
    }
    fn minimize_boxed_types(&self) -> bool {
        self.min_boxed
    }
    fn range(&self) -> bool {
        self.range
    }
    fn node_kind_enums(&self) -> bool {
        self.node_kind_enums
    }
}
impl ParserGeneratorConfig for GenCfg {
    fn trim_parse_tree(&self) -> bool {
        self.trim
    }
    fn recovery_disabled(&self) -> bool {
        self.recovery_disabled
    }
    fn max_parsing_depth(&self) -> Option<usize> {
        self.max_depth
    }
}

/// At which stage the pipeline stopped
#[derive(Clone, Debug, PartialEq, Eq)]
pub enum Stage {
    Parse,
    Check,
    Analysis,
    Generate,
}

#[derive(Debug)]
pub struct PipeErr {
    pub stage: Stage,
    pub msg: String,
}

pub enum Analysis {
    Ll(BTreeMap<String, parol::LookaheadDFA>),
    Lr(Box<parol::LRParseTable>, usize /* resolved conflicts */),
}

pub struct Generated {
    /// grammar config with the transformed cfg
    pub gc: GrammarConfig,
    /// cfg as read (before transformation)
    pub cfg0: parol::Cfg,
    pub analysis: Analysis,
    pub lexer_src: String,
    pub parser_src: String,
    pub max_k: usize,
}

pub fn fmt_err(e: &dyn std::fmt::Display) -> String {
    let s = format!("{e:#}");
    s.lines().next().unwrap_or("").chars().take(300).collect()
}

/// The pipeline of `parol::build::GrammarGenerator` (parse, expand, post_process, write_output
/// without files) through the public API.
pub fn pipeline(par: &str, k_limit: usize, cfg: &GenCfg) -> Result<Generated, PipeErr> {
    let mut gc = obtain_grammar_config_from_string(par, false)
        .map_err(|e| PipeErr { stage: Stage::Parse, msg: fmt_err(&e) })?;
    let cfg0 = gc.cfg.clone();
    // as GrammarGenerator::expand does
    let ignored: std::collections::BTreeSet<String> = gc.unreachable_non_terminals_to_ignore.iter().cloned().collect();
    let t = parol::generators::grammar_trans::check_and_transform_grammar_with_ignored(&gc.cfg, gc.grammar_type, &ignored)
        .map_err(|e| PipeErr { stage: Stage::Check, msg: fmt_err(&e) })?;
    gc.update_cfg(t);
    let analysis = match gc.grammar_type {
        GrammarType::LLK => {
            let dfas = calculate_lookahead_dfas(&gc, k_limit)
                .map_err(|e| PipeErr { stage: Stage::Analysis, msg: fmt_err(&e) })?;
            let k = dfas.values().map(|d| d.k).max().unwrap_or(0);
            gc.update_lookahead_size(k);
            Analysis::Ll(dfas)
        }
        GrammarType::LALR1 => {
            let (t, conflicts) = calculate_lalr1_parse_table(&gc)
                .map_err(|e| PipeErr { stage: Stage::Analysis, msg: fmt_err(&e) })?;
            gc.update_lookahead_size(1);
            Analysis::Lr(Box::new(t), conflicts.len())
        }
    };
    let lexer_src = generate_lexer_source(&gc, cfg)
        .map_err(|e| PipeErr { stage: Stage::Generate, msg: fmt_err(&e) })?;
    let parser_src = match &analysis {
        Analysis::Ll(dfas) => generate_parser_source(&gc, &lexer_src, cfg, dfas, true),
        Analysis::Lr(t, _) => generate_lalr1_parser_source(&gc, &lexer_src, cfg, t, true),
    }
    .map_err(|e| PipeErr { stage: Stage::Generate, msg: fmt_err(&e) })?;
    let max_k = gc.lookahead_size;
    Ok(Generated { gc, cfg0, analysis, lexer_src, parser_src, max_k })
}

// ---------------------------------------------------------------------------------------------
// arena for "static" tables that die with the Bound
// ---------------------------------------------------------------------------------------------

#[derive(Default)]
pub struct Arena {
    keep: RefCell<Vec<Box<dyn Any>>>,
}
impl Arena {
    pub fn slice<T: 'static>(&self, v: Vec<T>) -> &'static [T] {
        let b: Box<[T]> = v.into_boxed_slice();
        let p: *const [T] = &*b;
        self.keep.borrow_mut().push(Box::new(b));
        // SAFETY: the box is kept alive by the arena, which outlives every user (Bound owns the
        // arena and hands out parsers only for the duration of a call).
        unsafe { &*p }
    }
    pub fn one<T: 'static>(&self, v: T) -> &'static T {
        let b: Box<T> = Box::new(v);
        let p: *const T = &*b;
        self.keep.borrow_mut().push(Box::new(b));
        unsafe { &*p }
    }
    pub fn str(&self, s: &str) -> &'static str {
        let b: Box<str> = s.into();
        let p: *const str = &*b;
        self.keep.borrow_mut().push(Box::new(b));
        unsafe { &*p }
    }
}

// ---------------------------------------------------------------------------------------------
// scanner
// ---------------------------------------------------------------------------------------------

thread_local! {
    static CUR_IVS: Cell<&'static [(char, char, usize)]> = const { Cell::new(&[]) };
}

fn tl_match(c: char) -> Option<usize> {
    let ivs = CUR_IVS.with(|c| c.get());
    ivs.binary_search_by(|(s, e, _)| {
        if c < *s {
            std::cmp::Ordering::Greater
        } else if c > *e {
            std::cmp::Ordering::Less
        } else {
            std::cmp::Ordering::Equal
        }
    })
    .ok()
    .map(|i| ivs[i].2)
}
pub type MatchFn = fn(char) -> Option<usize>;
pub static MATCH_FN: MatchFn = tl_match;

fn conv_dfa(a: &Arena, d: &Dfa, ncls: usize) -> Result<scnr2::Dfa, String> {
    let mut states = vec![];
    for s in &d.states {
        let mut tr: Vec<Option<scnr2::DfaTransition>> = vec![None; ncls];
        for t in &s.transitions {
            tr[t.elementary_interval_index.as_usize()] =
                Some(scnr2::DfaTransition { to: t.target.as_usize() });
        }
        let mut acc = vec![];
        for p in &s.accept_data {
            acc.push(scnr2::AcceptData {
                token_type: p.terminal_type.as_usize(),
                priority: p.priority,
                lookahead: match &p.lookahead {
                    Lookahead::None => scnr2::Lookahead::None,
                    Lookahead::Positive(AutomatonType::Dfa(d)) => {
                        scnr2::Lookahead::Positive(conv_dfa(a, d, ncls)?)
                    }
                    Lookahead::Negative(AutomatonType::Dfa(d)) => {
                        scnr2::Lookahead::Negative(conv_dfa(a, d, ncls)?)
                    }
                    _ => return Err("lookahead automaton is not a DFA".into()),
                },
            });
        }
        states.push(scnr2::DfaState { transitions: a.slice(tr), accept_data: a.slice(acc) });
    }
    Ok(scnr2::Dfa { states: a.slice(states) })
}

pub struct ScannerTables {
    pub modes: &'static [scnr2::ScannerMode],
    pub ivs: &'static [(char, char, usize)],
    /// per mode: (pattern text, token type, lookahead (positive?, pattern)) in declaration order
    pub mode_patterns: Vec<(String, Vec<(String, usize, Option<(bool, String)>)>)>,
    pub mode_transitions: Vec<Vec<(usize, String)>>,
}

/// Build the scanner exactly the way `scnr2_macro::scanner!` does (scnr2_generate::generate),
/// but into runtime values instead of tokens.
pub fn build_scanner(a: &Arena, body: proc_macro2::TokenStream) -> Result<ScannerTables, String> {
    let sd: ScannerData = syn::parse2(body).map_err(|e| format!("scanner data: {e}"))?;
    let modes = std::panic::catch_unwind(std::panic::AssertUnwindSafe(|| sd.build_scanner_modes()))
        .map_err(|_| "build_scanner_modes panicked".to_string())?
        .map_err(|e| format!("scanner modes: {e}"))?;
    let mut nfas: Vec<Nfa> = vec![];
    for m in &modes {
        nfas.push(Nfa::build_from_patterns(&m.patterns).map_err(|e| format!("nfa: {e}"))?);
    }
    let mut cc = CharacterClasses::new();
    for n in &nfas {
        n.collect_character_classes(&mut cc);
    }
    cc.create_disjoint_character_classes();
    for n in &mut nfas {
        n.convert_to_disjoint_character_classes(&cc);
    }
    let mut ds = vec![];
    for n in &nfas {
        ds.push(Dfa::try_from(n).map_err(|e| format!("dfa: {e}"))?);
    }
    let ncls = cc.intervals.len();
    let mut rt = vec![];
    let mut mode_patterns = vec![];
    let mut mode_transitions = vec![];
    for (m, d) in modes.iter().zip(ds.iter()) {
        let mut tr = vec![];
        let mut trd = vec![];
        for t in &m.transitions {
            tr.push(match t {
                TransitionToNumericMode::SetMode(x, y) => {
                    trd.push((*x, format!("enter {y}")));
                    scnr2::Transition::SetMode(*x, *y)
                }
                TransitionToNumericMode::PushMode(x, y) => {
                    trd.push((*x, format!("push {y}")));
                    scnr2::Transition::PushMode(*x, *y)
                }
                TransitionToNumericMode::PopMode(x) => {
                    trd.push((*x, "pop".to_string()));
                    scnr2::Transition::PopMode(*x)
                }
            });
        }
        mode_transitions.push(trd);
        mode_patterns.push((
            m.name.clone(),
            m.patterns
                .iter()
                .map(|p| {
                    (
                        p.pattern.clone(),
                        p.terminal_type.as_usize(),
                        match &p.lookahead {
                            Lookahead::None => None,
                            Lookahead::Positive(x) => Some((true, la_pattern(x))),
                            Lookahead::Negative(x) => Some((false, la_pattern(x))),
                        },
                    )
                })
                .collect(),
        ));
        rt.push(scnr2::ScannerMode {
            name: a.str(&m.name),
            transitions: a.slice(tr),
            dfa: conv_dfa(a, d, ncls)?,
        });
    }
    let mut ivs: Vec<(char, char, usize)> = vec![];
    for iv in &cc.elementary_intervals {
        let idx = cc
            .intervals
            .iter()
            .position(|g| g.contains(iv))
            .ok_or("interval without group")?;
        ivs.push((*iv.start(), *iv.end(), idx));
    }
    ivs.sort();
    Ok(ScannerTables { modes: a.slice(rt), ivs: a.slice(ivs), mode_patterns, mode_transitions })
}

fn la_pattern(x: &AutomatonType) -> String {
    format!("{x:?}")
}

// ---------------------------------------------------------------------------------------------
// parser tables
// ---------------------------------------------------------------------------------------------

pub enum Tables {
    Ll {
        las: &'static [LookaheadDFA],
        prods: &'static [Production],
        max_k: usize,
    },
    Lr {
        table: &'static LRParseTable,
        prods: &'static [LRProduction],
    },
}

pub struct Bound {
    pub arena: Arena,
    pub src: SourceTables,
    pub scanner: ScannerTables,
    pub tables: Tables,
    pub tnames: &'static [&'static str],
    pub ntnames: &'static [&'static str],
    pub skips: &'static [&'static [u16]],
    pub start: usize,
    pub stream_k: usize,
}

fn need<'a>(st: &'a SourceTables, n: &str) -> Result<&'a Val, String> {
    st.consts.get(n).ok_or_else(|| format!("generated source lacks {n}"))
}

pub fn bind(parser_src: &str) -> Result<Bound, String> {
    let a = Arena::default();
    let st = read_source(parser_src)?;
    let body = st.scanner_body.clone().ok_or("no scanner! macro in generated source")?;
    let scanner = build_scanner(&a, body)?;
    let tnames: Vec<&'static str> =
        need(&st, "TERMINAL_NAMES")?.arr().iter().map(|v| a.str(v.str())).collect();
    let ntnames: Vec<&'static str> =
        need(&st, "NON_TERMINALS")?.arr().iter().map(|v| a.str(v.str())).collect();
    let skips: Vec<&'static [u16]> = need(&st, "SKIP_TOKENS_BY_SCANNER_STATE")?
        .arr()
        .iter()
        .map(|v| a.slice(v.arr().iter().map(|x| x.int() as u16).collect::<Vec<u16>>()))
        .collect();
    let start = st.start_index.ok_or("no parser constructor found in parse_into")?;
    let tables;
    let stream_k;
    if st.is_lr {
        let t = need(&st, "PARSE_TABLE")?;
        let mut actions = vec![];
        for v in t.field("actions").arr() {
            actions.push(match v {
                Val::Call(n, args) if n == "LRAction::Shift" => LRAction::Shift(args[0].int() as usize),
                Val::Call(n, args) if n == "LRAction::Reduce" => {
                    LRAction::Reduce(args[0].int() as usize, args[1].int() as usize)
                }
                Val::Path(n) if n == "LRAction::Accept" => LRAction::Accept,
                _ => return Err(format!("unknown LR action {v:?}")),
            });
        }
        let mut states = vec![];
        for s in t.field("states").arr() {
            let acts: Vec<(u16, usize)> = s
                .field("actions")
                .arr()
                .iter()
                .map(|p| (p.tup()[0].int() as u16, p.tup()[1].int() as usize))
                .collect();
            let gotos: Vec<(usize, usize)> = s
                .field("gotos")
                .arr()
                .iter()
                .map(|p| (p.tup()[0].int() as usize, p.tup()[1].int() as usize))
                .collect();
            states.push(LR1State { actions: a.slice(acts), gotos: a.slice(gotos) });
        }
        let table = a.one(LRParseTable { actions: a.slice(actions), states: a.slice(states) });
        let prods: Vec<LRProduction> = need(&st, "PRODUCTIONS")?
            .arr()
            .iter()
            .map(|p| LRProduction {
                lhs: p.field("lhs").int() as usize,
                len: p.field("len").int() as usize,
                is_push_production: p.field("is_push_production").bool(),
            })
            .collect();
        tables = Tables::Lr { table, prods: a.slice(prods) };
        stream_k = match &st.stream_k {
            Some(Val::Int(i)) => *i as usize,
            _ => return Err("LR token stream k is not a literal".into()),
        };
    } else {
        let mut las = vec![];
        for l in need(&st, "LOOKAHEAD_AUTOMATA")?.arr() {
            let tr: Vec<Trans> = l
                .field("transitions")
                .arr()
                .iter()
                .map(|t| match t {
                    Val::Call(n, x) if n == "Trans" => Trans(
                        x[0].int() as usize,
                        x[1].int() as u16,
                        x[2].int() as usize,
                        x[3].int() as i32 as _,
                    ),
                    _ => panic!("not a Trans: {t:?}"),
                })
                .collect();
            las.push(LookaheadDFA {
                prod0: l.field("prod0").int() as i32 as _,
                transitions: a.slice(tr),
                k: l.field("k").int() as usize,
            });
        }
        let mut prods = vec![];
        for p in need(&st, "PRODUCTIONS")?.arr() {
            let rhs: Vec<ParseType> = p
                .field("production")
                .arr()
                .iter()
                .map(|s| match s {
                    Val::Call(n, x) if n == "ParseType::N" => ParseType::N(x[0].int() as usize),
                    Val::Call(n, x) if n == "ParseType::T" => ParseType::T(x[0].int() as u16),
                    _ => panic!("not a ParseType: {s:?}"),
                })
                .collect();
            prods.push(Production {
                lhs: p.field("lhs").int() as usize,
                production: a.slice(rhs),
                is_push_production: p.field("is_push_production").bool(),
            });
        }
        let max_k = need(&st, "MAX_K")?.int() as usize;
        stream_k = match &st.stream_k {
            Some(Val::Path(p)) if p == "MAX_K" => max_k,
            Some(Val::Int(i)) => *i as usize,
            _ => return Err("LL token stream k not recognised".into()),
        };
        tables = Tables::Ll { las: a.slice(las), prods: a.slice(prods), max_k };
    }
    Ok(Bound {
        tnames: a.slice(tnames),
        ntnames: a.slice(ntnames),
        skips: a.slice(skips),
        arena: a,
        src: st,
        scanner,
        tables,
        start,
        stream_k,
    })
}

// ---------------------------------------------------------------------------------------------
// running parsers
// ---------------------------------------------------------------------------------------------

#[derive(Clone, Debug, PartialEq, Eq, PartialOrd, Ord, Hash)]
pub struct Tok {
    pub ty: u16,
    pub text: String,
    pub start: usize,
    pub end: usize,
    pub line: u32,
    pub col: u32,
    pub end_line: u32,
    pub end_col: u32,
    pub num: u32,
    pub skip: bool,
    pub eff_skip: bool,
}
impl Tok {
    pub fn of(t: &Token<'_>) -> Tok {
        Tok {
            ty: t.token_type,
            text: t.text().to_string(),
            start: t.location.start(),
            end: t.location.end(),
            line: t.location.start_line,
            col: t.location.start_column,
            end_line: t.location.end_line,
            end_col: t.location.end_column,
            num: t.token_number,
            skip: t.is_skip_token(),
            eff_skip: t.is_effectively_skip_token(),
        }
    }
}

#[derive(Clone, Debug, PartialEq, Eq)]
pub enum Node {
    N(String, Vec<Node>),
    T(Tok),
}
impl Node {
    pub fn leaves<'a>(&'a self, out: &mut Vec<&'a Tok>) {
        match self {
            Node::T(t) => out.push(t),
            Node::N(_, c) => c.iter().for_each(|n| n.leaves(out)),
        }
    }
}

/// Records the TreeConstruct protocol into a Node tree (the same protocol the default syntree
/// builder receives).
#[derive(Default)]
pub struct RecTree {
    stack: Vec<(String, Vec<Node>)>,
    pub root: Option<Node>,
    pub protocol_error: Option<String>,
}
impl<'t> TreeConstruct<'t> for RecTree {
    type Error = ParolError;
    type Tree = ();
    fn open_non_terminal(&mut self, name: &'static str, _h: Option<usize>) -> Result<(), ParolError> {
        self.stack.push((name.to_string(), vec![]));
        Ok(())
    }
    fn close_non_terminal(&mut self) -> Result<(), ParolError> {
        match self.stack.pop() {
            None => self.protocol_error = Some("close without open".into()),
            Some((n, c)) => {
                let node = Node::N(n, c);
                if let Some(top) = self.stack.last_mut() {
                    top.1.push(node);
                } else if self.root.is_some() {
                    self.protocol_error = Some("two roots".into());
                } else {
                    self.root = Some(node);
                }
            }
        }
        Ok(())
    }
    fn add_token(&mut self, token: &Token<'t>) -> Result<(), ParolError> {
        match self.stack.last_mut() {
            Some(top) => top.1.push(Node::T(Tok::of(token))),
            None => self.protocol_error = Some("token outside of any node".into()),
        }
        Ok(())
    }
    fn build(self) -> Result<(), ParolError> {
        Ok(())
    }
}

/// Tree builder and user actions that keep nothing: for very deep inputs, where the harness's own
/// recursive `Node` must not be the thing that overflows the stack.
#[derive(Default)]
pub struct NullTree {
    pub opened: usize,
    pub tokens: usize,
}
impl<'t> TreeConstruct<'t> for NullTree {
    type Error = ParolError;
    type Tree = ();
    fn open_non_terminal(&mut self, _name: &'static str, _h: Option<usize>) -> Result<(), ParolError> {
        self.opened += 1;
        Ok(())
    }
    fn close_non_terminal(&mut self) -> Result<(), ParolError> {
        Ok(())
    }
    fn add_token(&mut self, _token: &Token<'t>) -> Result<(), ParolError> {
        self.tokens += 1;
        Ok(())
    }
    fn build(self) -> Result<(), ParolError> {
        Ok(())
    }
}
#[derive(Default)]
pub struct NullActions {
    pub calls: usize,
}
impl<'t> UserActionsTrait<'t> for NullActions {
    fn call_semantic_action_for_production_number(&mut self, _prod_num: usize, _children: &[ParseTreeType<'t>]) -> parol_runtime::Result<()> {
        self.calls += 1;
        Ok(())
    }
    fn on_comment(&mut self, _token: Token<'t>) {}
}

impl Bound {
    /// run the real parser, keeping only the verdict (ok, error kind, action calls)
    pub fn parse_flat(&self, input: &str, opts: &RunOpts) -> (bool, Option<String>, usize) {
        let mut tb = NullTree::default();
        let mut act = NullActions::default();
        let ts = self.token_stream(input, opts.k_override.unwrap_or(self.stream_k));
        let trim = opts.trim || self.src.trim;
        let r = match &self.tables {
            Tables::Ll { las, prods, .. } => {
                let mut p = LLKParser::new(self.start, las, prods, self.tnames, self.ntnames);
                if trim {
                    p.trim_parse_tree();
                }
                if opts.recovery_disabled || self.src.recovery_disabled {
                    p.disable_recovery();
                }
                p.parse_into(&mut tb, ts, &mut act)
            }
            Tables::Lr { table, prods } => {
                let mut p = LRParser::new(self.start, table, prods, self.tnames, self.ntnames);
                if trim {
                    p.trim_parse_tree();
                }
                p.parse_into(&mut tb, ts, &mut act)
            }
        };
        match r {
            Ok(()) => (true, None, act.calls),
            Err(e) => (false, Some(classify_err(&e).0), act.calls),
        }
    }
}

#[derive(Clone, Debug, PartialEq, Eq)]
pub enum Child {
    T(Tok),
    N(String),
}

#[derive(Clone, Debug, PartialEq, Eq)]
pub enum Event {
    Action(usize, Vec<Child>),
    Comment(Tok),
}

pub struct Rec {
    pub events: Vec<Event>,
    /// the action call with this ordinal returns an error (watchdog against reduce loops)
    pub max_actions: usize,
    pub budget_exceeded: bool,
}
impl Default for Rec {
    fn default() -> Self {
        Rec { events: vec![], max_actions: 20_000, budget_exceeded: false }
    }
}
impl<'t> UserActionsTrait<'t> for Rec {
    fn call_semantic_action_for_production_number(
        &mut self,
        prod_num: usize,
        children: &[ParseTreeType<'t>],
    ) -> parol_runtime::Result<()> {
        if self.events.len() >= self.max_actions {
            self.budget_exceeded = true;
            return Err(ParolError::UserError(anyhow_like("verif: action budget exceeded")));
        }
        self.events.push(Event::Action(
            prod_num,
            children
                .iter()
                .map(|c| match c {
                    ParseTreeType::T(t) => Child::T(Tok::of(t)),
                    ParseTreeType::N(n) => Child::N(n.to_string()),
                })
                .collect(),
        ));
        Ok(())
    }
    fn on_comment(&mut self, token: Token<'t>) {
        self.events.push(Event::Comment(Tok::of(&token)));
    }
}

fn anyhow_like(m: &'static str) -> anyhow::Error {
    anyhow::Error::msg(m)
}

#[derive(Clone, Debug, Default)]
pub struct RunOpts {
    pub trim: bool,
    pub recovery_disabled: bool,
    pub max_depth: Option<usize>,
    /// override of the token stream lookahead size (None = as generated)
    pub k_override: Option<usize>,
}

pub struct Outcome {
    pub ok: bool,
    pub err: Option<String>,
    pub err_debug_head: Option<String>,
    pub n_errors: Option<usize>,
    pub events: Vec<Event>,
    pub tree: Option<Node>,
    pub protocol_error: Option<String>,
    /// the watchdog stopped the run after too many action calls (non-termination witness)
    pub budget_exceeded: bool,
}

fn classify_err(e: &ParolError) -> (String, String, Option<usize>) {
    let d = format!("{e:?}");
    let head: String = d.chars().take(60).collect();
    let kind = match e {
        ParolError::ParserError(pe) => {
            let s = format!("{pe:?}");
            let k: String = s.chars().take_while(|c| c.is_alphanumeric() || *c == '_').collect();
            format!("ParserError::{k}")
        }
        ParolError::LexerError(le) => {
            let s = format!("{le:?}");
            let k: String = s.chars().take_while(|c| c.is_alphanumeric() || *c == '_').collect();
            format!("LexerError::{k}")
        }
        ParolError::UserError(_) => "UserError".to_string(),
    };
    let n = match e {
        ParolError::ParserError(parol_runtime::ParserError::SyntaxErrors { entries }) => {
            Some(entries.len())
        }
        _ => None,
    };
    (kind, head, n)
}

impl Bound {
    pub fn activate(&self) {
        CUR_IVS.with(|c| c.set(self.scanner.ivs));
    }

    pub fn token_stream<'t>(&self, input: &'t str, k: usize) -> TokenStream<'t, MatchFn> {
        self.activate();
        let si = Rc::new(RefCell::new(ScannerImpl::new(self.scanner.modes)));
        TokenStream::new_with_skip_tokens(input, "in.txt", si, &MATCH_FN, k, self.skips).unwrap()
    }

    /// Run the bound parser the way the generated `parse_into` does, with the options found in
    /// the generated source OR-ed with `opts`.
    pub fn parse(&self, input: &str, opts: &RunOpts) -> Outcome {
        self.parse_with(input, opts, &mut Rec::default())
    }

    pub fn parse_with(&self, input: &str, opts: &RunOpts, rec: &mut Rec) -> Outcome {
        let mut tb = RecTree::default();
        let k = opts.k_override.unwrap_or(self.stream_k);
        let ts = self.token_stream(input, k);
        let trim = opts.trim || self.src.trim;
        let depth = opts.max_depth.or(self.src.max_depth);
        let r = match &self.tables {
            Tables::Ll { las, prods, .. } => {
                let mut p = LLKParser::new(self.start, las, prods, self.tnames, self.ntnames);
                if trim {
                    p.trim_parse_tree();
                }
                if opts.recovery_disabled || self.src.recovery_disabled {
                    p.disable_recovery();
                }
                if let Some(d) = depth {
                    p.set_max_parsing_depth(d);
                }
                p.parse_into(&mut tb, ts, rec)
            }
            Tables::Lr { table, prods } => {
                let mut p = LRParser::new(self.start, table, prods, self.tnames, self.ntnames);
                if trim {
                    p.trim_parse_tree();
                }
                if let Some(d) = depth {
                    p.set_max_parsing_depth(d);
                }
                p.parse_into(&mut tb, ts, rec)
            }
        };
        let events = std::mem::take(&mut rec.events);
        match r {
            Ok(()) => {
                // unwind any nodes left open (protocol error) – recorded, not hidden
                let pe = if !tb.stack.is_empty() {
                    Some(format!("{} nodes left open", tb.stack.len()))
                } else {
                    tb.protocol_error.clone()
                };
                Outcome {
                    ok: true,
                    err: None,
                    err_debug_head: None,
                    n_errors: None,
                    events,
                    tree: tb.root.take(),
                    protocol_error: pe,
                    budget_exceeded: rec.budget_exceeded,
                }
            }
            Err(e) => {
                let (kind, head, n) = classify_err(&e);
                Outcome {
                    ok: false,
                    err: Some(kind),
                    err_debug_head: Some(head),
                    n_errors: n,
                    events,
                    tree: None,
                    protocol_error: None,
                    budget_exceeded: rec.budget_exceeded,
                }
            }
        }
    }
}

impl Bound {
    /// Parse several inputs one after the other with ONE parser object (the public API takes
    /// `&mut self`, so a parser may be reused, also after a failed parse). Fresh tree builder, fresh
    /// actions and a fresh token stream per input.
    pub fn parse_reusing(&self, inputs: &[&str], opts: &RunOpts) -> Vec<Outcome> {
        let k = opts.k_override.unwrap_or(self.stream_k);
        let trim = opts.trim || self.src.trim;
        let mut res = vec![];
        let finish = |r: Result<(), ParolError>, mut tb: RecTree, mut rec: Rec| -> Outcome {
            let events = std::mem::take(&mut rec.events);
            match r {
                Ok(()) => {
                    let pe = if !tb.stack.is_empty() { Some(format!("{} nodes left open", tb.stack.len())) } else { tb.protocol_error.clone() };
                    Outcome { ok: true, err: None, err_debug_head: None, n_errors: None, events, tree: tb.root.take(), protocol_error: pe, budget_exceeded: rec.budget_exceeded }
                }
                Err(e) => {
                    let (kind, head, n) = classify_err(&e);
                    Outcome { ok: false, err: Some(kind), err_debug_head: Some(head), n_errors: n, events, tree: None, protocol_error: None, budget_exceeded: rec.budget_exceeded }
                }
            }
        };
        match &self.tables {
            Tables::Ll { las, prods, .. } => {
                let mut p = LLKParser::new(self.start, las, prods, self.tnames, self.ntnames);
                if trim {
                    p.trim_parse_tree();
                }
                if opts.recovery_disabled || self.src.recovery_disabled {
                    p.disable_recovery();
                }
                for input in inputs {
                    let mut tb = RecTree::default();
                    let mut rec = Rec::default();
                    let ts = self.token_stream(input, k);
                    let r = p.parse_into(&mut tb, ts, &mut rec);
                    res.push(finish(r, tb, rec));
                }
            }
            Tables::Lr { table, prods } => {
                let mut p = LRParser::new(self.start, table, prods, self.tnames, self.ntnames);
                if trim {
                    p.trim_parse_tree();
                }
                for input in inputs {
                    let mut tb = RecTree::default();
                    let mut rec = Rec::default();
                    let ts = self.token_stream(input, k);
                    let r = p.parse_into(&mut tb, ts, &mut rec);
                    res.push(finish(r, tb, rec));
                }
            }
        }
        res
    }
}

/// pipeline + bind in one step
pub fn generate_and_bind(par: &str, k_limit: usize, cfg: &GenCfg) -> Result<(Generated, Bound), PipeErr> {
    let g = pipeline(par, k_limit, cfg)?;
    let b = bind(&g.parser_src).map_err(|m| PipeErr { stage: Stage::Generate, msg: format!("BIND: {m}") })?;
    Ok((g, b))
}

// ---------------------------------------------------------------------------------------------
// the real Builder (files in a scratch directory)
// ---------------------------------------------------------------------------------------------

pub struct Built {
    pub parser: String,
    pub actions: String,
    pub expanded: String,
}

static BUILD_COUNTER: std::sync::atomic::AtomicU64 = std::sync::atomic::AtomicU64::new(0);

/// Run `parol::build::Builder` exactly as a build script would (explicit output directory),
/// returning the generated parser, trait/AST source and expanded grammar.
pub fn builder_generate(par: &str, k: usize, cfg: &GenCfg) -> Result<Built, String> {
    builder_generate_named(par, k, cfg, "Gram", "gram")
}

pub fn builder_generate_named(par: &str, k: usize, cfg: &GenCfg, user_type: &str, module: &str) -> Result<Built, String> {
    let n = BUILD_COUNTER.fetch_add(1, std::sync::atomic::Ordering::Relaxed);
    let dir = crate::common::verif_root().join(".build").join("tmp").join(format!("b{}-{}", std::process::id(), n));
    std::fs::create_dir_all(&dir).map_err(|e| e.to_string())?;
    let gf = dir.join("g.par");
    std::fs::write(&gf, par).map_err(|e| e.to_string())?;
    let mut b = parol::build::Builder::with_explicit_output_dir(&dir);
    b.grammar_file(&gf)
        .parser_output_file("parser.rs")
        .actions_output_file("grammar_trait.rs")
        .expanded_grammar_output_file("g-exp.par")
        .user_type_name(user_type)
        .user_trait_module_name(module)
        .set_cargo_integration(false);
    let b = b.max_lookahead(k).map_err(|e| format!("{e}"))?;
    if cfg.min_boxed {
        b.minimize_boxed_types();
    }
    if cfg.range {
        b.range();
    }
    if cfg.node_kind_enums {
        b.node_kind_enums();
        b.node_kind_enums_output_file("node_kind.rs");
    }
    if cfg.trim {
        b.trim_parse_tree();
    }
    if cfg.recovery_disabled {
        b.disable_recovery();
    }
    if let Some(d) = cfg.max_depth {
        b.max_parsing_depth(d);
    }
    let r = b.generate_parser();
    let res = match r {
        Ok(()) => Ok(Built {
            parser: std::fs::read_to_string(dir.join("parser.rs")).unwrap_or_default(),
            actions: std::fs::read_to_string(dir.join("grammar_trait.rs")).unwrap_or_default(),
            expanded: std::fs::read_to_string(dir.join("g-exp.par")).unwrap_or_default(),
        }),
        Err(e) => Err(fmt_err(&e)),
    };
    let _ = std::fs::remove_dir_all(&dir);
    res
}
