//! Plumbing shared by all property modules: tiers, accumulation of coverage, violations,
//! known findings, evidence and replay files, panic capture.

use serde_json::{Value, json};
use std::cell::RefCell;
use std::collections::{BTreeMap, HashSet};
use std::hash::{Hash, Hasher};
use std::path::PathBuf;
use std::sync::Mutex;
use std::sync::atomic::{AtomicBool, AtomicU64, Ordering};
use std::time::{Duration, Instant};

pub static OUT: std::sync::OnceLock<Mutex<std::fs::File>> = std::sync::OnceLock::new();

/// parol prints resolved LALR conflicts with println!; the harness therefore moves the real
/// stdout to a private descriptor and points fd 1 at /dev/null. All harness output goes through
/// `outln!`.
pub fn init_out() {
    use std::os::fd::FromRawFd;
    unsafe {
        let saved = libc::dup(1);
        let devnull = libc::open(c"/dev/null".as_ptr(), libc::O_WRONLY);
        libc::dup2(devnull, 1);
        libc::close(devnull);
        let _ = OUT.set(Mutex::new(std::fs::File::from_raw_fd(saved)));
    }
}

#[macro_export]
macro_rules! outln {
    ($($arg:tt)*) => {{
        use std::io::Write;
        let s = format!($($arg)*);
        match $crate::common::OUT.get() {
            Some(f) => { let mut f = f.lock().unwrap(); let _ = writeln!(f, "{}", s); }
            None => println!("{}", s),
        }
    }};
}

#[derive(Clone, Copy, PartialEq, Eq, Debug)]
pub enum Tier {
    Quick,
    Thorough,
}
impl Tier {
    pub fn name(&self) -> &'static str {
        match self {
            Tier::Quick => "quick",
            Tier::Thorough => "thorough",
        }
    }
    pub fn pick<T>(&self, q: T, t: T) -> T {
        match self {
            Tier::Quick => q,
            Tier::Thorough => t,
        }
    }
}

pub fn verif_root() -> PathBuf {
    std::env::var("VERIF_ROOT").map(PathBuf::from).unwrap_or_else(|_| PathBuf::from("/verif"))
}

pub struct Ctx {
    pub id: String,
    pub tier: Tier,
    pub seed: i64,
    pub start: Instant,
    pub budget: Duration,
    pub capped: AtomicBool,
}
impl Ctx {
    pub fn new(id: &str, tier: Tier) -> Ctx {
        let seed = std::env::var("VERIF_SEED").ok().and_then(|s| s.parse().ok()).unwrap_or(0);
        let budget = std::env::var("VERIF_BUDGET_S")
            .ok()
            .and_then(|s| s.parse::<u64>().ok())
            .unwrap_or(tier.pick(45, 1500));
        Ctx {
            id: id.to_string(),
            tier,
            seed,
            start: Instant::now(),
            budget: Duration::from_secs(budget),
            capped: AtomicBool::new(false),
        }
    }
    /// true once the wall-clock budget is used up; marks the run as capped
    pub fn expired(&self) -> bool {
        if self.start.elapsed() > self.budget {
            self.capped.store(true, Ordering::Relaxed);
            true
        } else {
            false
        }
    }
}

#[derive(Clone, Debug)]
pub struct Violation {
    /// root-cause class, decided by a narrow structured predicate in the property module;
    /// known findings are matched on this
    pub class: String,
    /// short human text
    pub what: String,
    /// the replayable case
    pub case: Value,
    pub detail: Value,
}

/// Keep at most `per_class` violations of each class (the first ones) and return how many remain.
/// Used instead of "stop after N violations": a flood of one (possibly known) class must not keep
/// a different class from being seen.
pub fn prune_by_class(out: &mut Vec<Violation>, per_class: usize) -> usize {
    let mut seen: BTreeMap<String, usize> = BTreeMap::new();
    out.retain(|v| {
        let c = seen.entry(v.class.clone()).or_insert(0);
        *c += 1;
        *c <= per_class
    });
    out.len()
}

pub fn hash_of<T: Hash>(t: &T) -> u64 {
    let mut h = std::collections::hash_map::DefaultHasher::new();
    t.hash(&mut h);
    h.finish()
}

#[derive(Default)]
pub struct Acc {
    pub evaluations: AtomicU64,
    pub nontrivial: AtomicU64,
    distinct: Mutex<HashSet<u64>>,
    samples: Mutex<Vec<Value>>,
    pub violations: Mutex<Vec<Violation>>,
    pub outcomes: Mutex<BTreeMap<String, u64>>,
    pub counters: Mutex<BTreeMap<String, u64>>,
    pub fallback: Mutex<Option<Value>>,
}
impl Acc {
    pub fn eval(&self, n: u64) {
        self.evaluations.fetch_add(n, Ordering::Relaxed);
    }
    /// count a distinct non-trivial case by its hash
    pub fn distinct<T: Hash>(&self, t: &T) {
        self.distinct.lock().unwrap().insert(hash_of(t));
    }
    pub fn distinct_n(&self, n: u64) {
        self.nontrivial.fetch_add(n, Ordering::Relaxed);
    }
    pub fn sample(&self, v: Value) {
        let mut s = self.samples.lock().unwrap();
        if s.len() < 6 {
            s.push(v);
        }
    }
    /// a case to show when no case satisfied the (stricter) sampling condition of a check
    pub fn fallback(&self, f: impl FnOnce() -> Value) {
        let mut fb = self.fallback.lock().unwrap();
        if fb.is_none() {
            *fb = Some(f());
        }
    }
    pub fn want_sample(&self) -> bool {
        self.samples.lock().unwrap().len() < 6
    }
    pub fn outcome(&self, k: &str) {
        *self.outcomes.lock().unwrap().entry(k.to_string()).or_insert(0) += 1;
    }
    pub fn outcome_n(&self, k: &str, n: u64) {
        *self.outcomes.lock().unwrap().entry(k.to_string()).or_insert(0) += n;
    }
    pub fn count(&self, k: &str, n: u64) {
        *self.counters.lock().unwrap().entry(k.to_string()).or_insert(0) += n;
    }
    pub fn violation(&self, v: Violation) {
        let mut vs = self.violations.lock().unwrap();
        // keep at most 40 per class
        if vs.iter().filter(|x| x.class == v.class).count() < 40 {
            vs.push(v);
        } else {
            drop(vs);
            self.count(&format!("violations_dropped:{}", v.class), 1);
        }
    }
    pub fn n_distinct(&self) -> u64 {
        self.distinct.lock().unwrap().len() as u64 + self.nontrivial.load(Ordering::Relaxed)
    }
}

// ---------------------------------------------------------------------------------------------
// panic capture
// ---------------------------------------------------------------------------------------------

thread_local! {
    static LAST_PANIC: RefCell<Option<String>> = const { RefCell::new(None) };
    static QUIET: RefCell<bool> = const { RefCell::new(false) };
}

pub fn install_panic_hook() {
    let default = std::panic::take_hook();
    std::panic::set_hook(Box::new(move |info| {
        let loc = info.location().map(|l| format!("{}:{}", l.file(), l.line())).unwrap_or_default();
        let msg = if let Some(s) = info.payload().downcast_ref::<&str>() {
            s.to_string()
        } else if let Some(s) = info.payload().downcast_ref::<String>() {
            s.clone()
        } else {
            "<non-string panic>".to_string()
        };
        let quiet = QUIET.with(|q| *q.borrow());
        LAST_PANIC.with(|p| *p.borrow_mut() = Some(format!("{msg} @ {loc}")));
        if !quiet {
            default(info);
        }
    }));
}

/// Run f, turning a panic into Err("message @ file:line")
pub fn catch<T>(f: impl FnOnce() -> T) -> Result<T, String> {
    QUIET.with(|q| *q.borrow_mut() = true);
    let r = std::panic::catch_unwind(std::panic::AssertUnwindSafe(f));
    QUIET.with(|q| *q.borrow_mut() = false);
    r.map_err(|_| LAST_PANIC.with(|p| p.borrow_mut().take()).unwrap_or_else(|| "panic".into()))
}

/// strip the line-independent part of a panic location for classing: "msg @ file"
pub fn panic_site(p: &str) -> String {
    let p: String = p.chars().take(200).collect();
    p
}

// ---------------------------------------------------------------------------------------------
// known findings
// ---------------------------------------------------------------------------------------------

#[derive(Clone, Debug)]
pub struct Known {
    pub property: String,
    pub class: String,
    pub status: String,
    pub text: String,
}

pub fn load_known() -> Vec<Known> {
    let p = verif_root().join("known_findings.json");
    let Ok(s) = std::fs::read_to_string(&p) else { return vec![] };
    let v: Value = serde_json::from_str(&s).expect("known_findings.json is not valid JSON");
    v["findings"]
        .as_array()
        .map(|a| {
            let mut v = vec![];
            for f in a {
                let mut classes: Vec<String> = f["classes"].as_array().map(|c| c.iter().filter_map(|x| x.as_str().map(|s| s.to_string())).collect()).unwrap_or_default();
                if let Some(c) = f["class"].as_str() {
                    classes.push(c.to_string());
                }
                for c in classes {
                    v.push(Known {
                        property: f["property"].as_str().unwrap_or("").to_string(),
                        class: c,
                        status: f["status"].as_str().unwrap_or("").to_string(),
                        text: f["text"].as_str().unwrap_or("").to_string(),
                    });
                }
            }
            v
        })
        .unwrap_or_default()
}

// ---------------------------------------------------------------------------------------------
// finishing a run
// ---------------------------------------------------------------------------------------------

pub struct Finish {
    pub level: &'static str,
    pub rule: String,
    pub exhaustive_note: String,
    pub assumptions: Vec<String>,
    pub extra: Value,
}

/// Writes evidence, replays and prints KNOWN-FINDING / VIOLATION lines; returns the exit code.
pub fn finish(ctx: &Ctx, acc: &Acc, fin: Finish) -> i32 {
    let root = verif_root();
    let known = load_known();
    let vs = acc.violations.lock().unwrap().clone();
    let mut by_class: BTreeMap<String, Vec<&Violation>> = BTreeMap::new();
    for v in &vs {
        by_class.entry(v.class.clone()).or_default().push(v);
    }
    let mut exit = 0;
    let mut n_unknown = 0u64;
    let mut n_known = 0u64;
    let _ = std::fs::create_dir_all(root.join("replays"));
    let mut replay_no = 0;
    let mut vio_json = vec![];
    for (class, list) in &by_class {
        let k = known.iter().find(|k| k.property == ctx.id && k.class == *class && k.status == "known");
        if let Some(k) = k {
            n_known += list.len() as u64;
            crate::outln!(
                "KNOWN-FINDING: property={} class={} instances={} first: {} -- {}",
                ctx.id,
                class,
                list.len(),
                list[0].what,
                k.text
            );
            vio_json.push(json!({"class": class, "known": true, "instances": list.len(), "first": list[0].what, "case": list[0].case}));
            continue;
        }
        n_unknown += list.len() as u64;
        exit = 1;
        // write at most 3 replays per class
        for v in list.iter().take(3) {
            replay_no += 1;
            let path = root.join("replays").join(format!("{}-{}.json", ctx.id, replay_no));
            let rec = json!({
                "property": ctx.id, "class": v.class, "what": v.what, "case": v.case, "detail": v.detail,
            });
            std::fs::write(&path, serde_json::to_string_pretty(&rec).unwrap()).unwrap();
            crate::outln!("VIOLATION property={} replay={}", ctx.id, path.display());
            crate::outln!("  class={} {}", v.class, v.what);
        }
        vio_json.push(json!({"class": class, "known": false, "instances": list.len(), "first": list[0].what, "case": list[0].case}));
    }
    let capped = ctx.capped.load(Ordering::Relaxed);
    let evaluations = acc.evaluations.load(Ordering::Relaxed).max(1);
    let distinct = acc.n_distinct();
    let mut samples = acc.samples.lock().unwrap().clone();
    if samples.is_empty() {
        if let Some(f) = acc.fallback.lock().unwrap().clone() {
            samples.push(f);
        }
    }
    let outcomes = acc.outcomes.lock().unwrap().clone();
    let counters = acc.counters.lock().unwrap().clone();
    let mut coverage = json!({
        "evaluations": evaluations,
        "distinct_nontrivial": distinct,
        "rule": fin.rule,
        "samples": samples,
        "exhaustive": !capped,
        "capped": capped,
        "bounds_note": fin.exhaustive_note,
        "distinct_outcomes": outcomes.len(),
        "outcomes": outcomes,
        "counters": counters,
        "violation_classes": vio_json,
        "known_finding_instances": n_known,
    });
    if let (Some(c), Some(e)) = (coverage.as_object_mut(), fin.extra.as_object()) {
        for (k, v) in e {
            c.insert(k.clone(), v.clone());
        }
    }
    let ev = json!({
        "property_id": ctx.id,
        "tier": ctx.tier.name(),
        "seed": ctx.seed,
        "level": fin.level,
        "coverage": coverage,
        "assumptions": fin.assumptions,
        "wall_s": ctx.start.elapsed().as_secs_f64(),
        "violations": n_unknown,
    });
    let _ = std::fs::create_dir_all(root.join("evidence"));
    std::fs::write(
        root.join("evidence").join(format!("{}.json", ctx.id)),
        serde_json::to_string_pretty(&ev).unwrap(),
    )
    .unwrap();
    crate::outln!(
        "{} tier={} evaluations={} distinct_nontrivial={} outcomes={} violations={} known={} capped={} wall={:.1}s",
        ctx.id,
        ctx.tier.name(),
        evaluations,
        distinct,
        outcomes.len(),
        n_unknown,
        n_known,
        capped,
        ctx.start.elapsed().as_secs_f64()
    );
    if distinct < 2 && exit == 0 {
        eprintln!("MACHINERY: vacuous run (distinct_nontrivial < 2)");
        return 2;
    }
    exit
}

/// Replay support: read the `case` of a replay file
pub fn read_replay(path: &str) -> Value {
    let s = std::fs::read_to_string(path).unwrap_or_else(|e| {
        eprintln!("cannot read replay {path}: {e}");
        std::process::exit(2)
    });
    let v: Value = serde_json::from_str(&s).unwrap_or_else(|e| {
        eprintln!("replay {path} is not JSON: {e}");
        std::process::exit(2)
    });
    if v.get("case").is_some() { v["case"].clone() } else { v }
}

/// Print the verdict of a replayed case; run twice to be sure it is deterministic.
pub fn replay_verdict(id: &str, path: &str, f: impl Fn() -> Vec<Violation>) -> i32 {
    let a = f();
    let b = f();
    let ka: Vec<_> = a.iter().map(|v| (v.class.clone(), v.what.clone())).collect();
    let kb: Vec<_> = b.iter().map(|v| (v.class.clone(), v.what.clone())).collect();
    if ka != kb {
        eprintln!("MACHINERY: replay is not deterministic: {ka:?} vs {kb:?}");
        return 2;
    }
    if a.is_empty() {
        crate::outln!("REPLAY property={id} holds on {path}");
        0
    } else {
        for v in &a {
            crate::outln!("VIOLATION property={id} replay={path}");
            crate::outln!("  class={} {}", v.class, v.what);
            crate::outln!("  detail={}", v.detail);
        }
        1
    }
}
