//! Textbook LALR(1): canonical LR(1) item sets, merged by core, conflict detection.
//! Used only to decide "is this grammar LALR(1)?" (C04).

use crate::refs::*;
use std::collections::{BTreeMap, BTreeSet};

type Item = (usize, usize, u16); // production, dot, lookahead
type State = BTreeSet<Item>;

pub struct LalrResult {
    pub states: usize,
    /// (state core rendering, terminal, kind)
    pub conflicts: Vec<String>,
}

/// `g` is augmented internally with S' -> S (production index = g.prods.len()).
pub fn lalr1_conflicts(g: &RBnf) -> LalrResult {
    // productions are a *set*: `S: 'a' 'b' | 'a' ( 'b' );` canonicalizes to two identical productions,
    // which is the same grammar as with one of them (weaker reading of C04, see DESIGN.md 11.3)
    let mut prods: Vec<(usize, Vec<RSym>)> = vec![];
    for p in &g.prods {
        if !prods.contains(p) {
            prods.push(p.clone());
        }
    }
    let aug_nt = g.nts.len();
    let aug = prods.len();
    prods.push((aug_nt, vec![RSym::N(g.start)]));
    // FIRST_1 of non-terminals (with eps as empty vec)
    let mut ga = g.clone();
    ga.nts.push("S'".into());
    ga.prods = prods.clone();
    let first = first_k(&ga, 1);

    let first_of = |seq: &[RSym], la: u16| -> BTreeSet<u16> {
        let mut res = BTreeSet::new();
        let mut nullable_prefix = true;
        for s in seq {
            match s {
                RSym::T(t) => {
                    res.insert(*t);
                    nullable_prefix = false;
                    break;
                }
                RSym::N(n) => {
                    let mut has_eps = false;
                    for w in &first.nts[*n] {
                        if w.is_empty() {
                            has_eps = true;
                        } else {
                            res.insert(w[0]);
                        }
                    }
                    if !has_eps {
                        nullable_prefix = false;
                        break;
                    }
                }
            }
        }
        if nullable_prefix {
            res.insert(la);
        }
        res
    };

    let closure = |mut st: State| -> State {
        let mut work: Vec<Item> = st.iter().cloned().collect();
        while let Some((p, d, la)) = work.pop() {
            let rhs = &prods[p].1;
            if d < rhs.len() {
                if let RSym::N(b) = &rhs[d] {
                    let las = first_of(&rhs[d + 1..], la);
                    for (q, (l, _)) in prods.iter().enumerate() {
                        if l == b {
                            for x in &las {
                                let it = (q, 0, *x);
                                if st.insert(it) {
                                    work.push(it);
                                }
                            }
                        }
                    }
                }
            }
        }
        st
    };

    let mut start = State::new();
    start.insert((aug, 0, END));
    let start = closure(start);
    let mut states: Vec<State> = vec![start.clone()];
    let mut index: BTreeMap<State, usize> = BTreeMap::new();
    index.insert(start, 0);
    let mut trans: Vec<BTreeMap<RSym2, usize>> = vec![BTreeMap::new()];
    let mut i = 0;
    while i < states.len() {
        let st = states[i].clone();
        let mut by_sym: BTreeMap<RSym2, State> = BTreeMap::new();
        for (p, d, la) in &st {
            let rhs = &prods[*p].1;
            if *d < rhs.len() {
                by_sym.entry(RSym2::of(&rhs[*d])).or_default().insert((*p, d + 1, *la));
            }
        }
        for (sym, kernel) in by_sym {
            let c = closure(kernel);
            let j = if let Some(j) = index.get(&c) {
                *j
            } else {
                states.push(c.clone());
                trans.push(BTreeMap::new());
                index.insert(c, states.len() - 1);
                states.len() - 1
            };
            trans[i].insert(sym, j);
        }
        i += 1;
        if states.len() > 20000 {
            break;
        }
    }
    // merge by core
    let mut core_index: BTreeMap<BTreeSet<(usize, usize)>, usize> = BTreeMap::new();
    let mut merged: Vec<State> = vec![];
    for st in &states {
        let core: BTreeSet<(usize, usize)> = st.iter().map(|(p, d, _)| (*p, *d)).collect();
        if let Some(j) = core_index.get(&core) {
            merged[*j].extend(st.iter().cloned());
        } else {
            core_index.insert(core, merged.len());
            merged.push(st.clone());
        }
    }
    let mut conflicts = vec![];
    for st in &merged {
        let mut shifts: BTreeSet<u16> = BTreeSet::new();
        let mut reduces: BTreeMap<u16, BTreeSet<usize>> = BTreeMap::new();
        for (p, d, la) in st {
            let rhs = &prods[*p].1;
            if *d < rhs.len() {
                if let RSym::T(t) = &rhs[*d] {
                    shifts.insert(*t);
                }
            } else {
                reduces.entry(*la).or_default().insert(*p);
            }
        }
        for (la, ps) in &reduces {
            if ps.len() > 1 {
                conflicts.push(format!("reduce/reduce on {la} between productions {ps:?}"));
            }
            if shifts.contains(la) {
                conflicts.push(format!("shift/reduce on {la} with productions {ps:?}"));
            }
        }
    }
    LalrResult { states: merged.len(), conflicts }
}

#[derive(Clone, Debug, PartialEq, Eq, PartialOrd, Ord)]
enum RSym2 {
    T(u16),
    N(usize),
}
impl RSym2 {
    fn of(s: &RSym) -> RSym2 {
        match s {
            RSym::T(t) => RSym2::T(*t),
            RSym::N(n) => RSym2::N(*n),
        }
    }
}
