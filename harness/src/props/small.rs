//! C31 (recovery edit scripts) and C32 (packed k-tuple representation).

use rayon::prelude::*;
use serde_json::json;
use std::collections::{HashSet, VecDeque};

use parol::analysis::compiled_terminal::CompiledTerminal;
use parol::analysis::k_tuple::Terminals;
use parol::{KTuple, KTupleBuilder};

use crate::common::*;

// ---------------------------------------------------------------------------------------------
// C31
// ---------------------------------------------------------------------------------------------

fn dp_distance(a: &[u16], b: &[u16]) -> usize {
    let mut prev: Vec<usize> = (0..=b.len()).collect();
    for i in 1..=a.len() {
        let mut cur = vec![i; b.len() + 1];
        for j in 1..=b.len() {
            let sub = prev[j - 1] + if a[i - 1] == b[j - 1] { 0 } else { 1 };
            cur[j] = sub.min(prev[j] + 1).min(cur[j - 1] + 1);
        }
        prev = cur;
    }
    prev[b.len()]
}

fn seqs(alpha: u16, n: usize) -> Vec<Vec<u16>> {
    let mut res = vec![vec![]];
    let mut layer: Vec<Vec<u16>> = vec![vec![]];
    for _ in 0..n {
        let mut nx = vec![];
        for w in &layer {
            for a in 0..alpha {
                let mut z = w.clone();
                z.push(a);
                nx.push(z);
            }
        }
        res.extend(nx.iter().cloned());
        layer = nx;
    }
    res
}

fn check_pair(act: &[u16], exp: &[u16]) -> Option<(String, String)> {
    let r = catch(|| parol_runtime::verif_hooks::levenshtein_distance(act, exp));
    let (d, ops) = match r {
        Ok(x) => x,
        Err(p) => return Some(("panic".into(), panic_site(&p))),
    };
    // apply the script the way LLKParser::adjust_token_stream does
    let (mut i, mut j) = (0usize, 0usize);
    let mut out: Vec<u16> = vec![];
    for op in &ops {
        match op {
            0 => {
                if i >= act.len() || j >= exp.len() || act[i] != exp[j] {
                    return Some(("keep_on_unequal_or_missing_tokens".into(), format!("ops {ops:?}")));
                }
                out.push(act[i]);
                i += 1;
                j += 1;
            }
            3 => {
                if i >= act.len() || j >= exp.len() {
                    return Some(("script_runs_off_the_sequences".into(), format!("ops {ops:?}")));
                }
                out.push(exp[j]);
                i += 1;
                j += 1;
            }
            1 => {
                if j >= exp.len() {
                    return Some(("script_runs_off_the_sequences".into(), format!("ops {ops:?}")));
                }
                out.push(exp[j]);
                j += 1;
            }
            _ => {
                if i >= act.len() {
                    return Some(("script_runs_off_the_sequences".into(), format!("ops {ops:?}")));
                }
                i += 1;
            }
        }
    }
    if i != act.len() || out != exp {
        return Some(("script_does_not_produce_expected_sequence".into(), format!("ops {ops:?} turn {act:?} into {out:?}, expected {exp:?}")));
    }
    let non_keep = ops.iter().filter(|o| **o != 0).count();
    let reference = dp_distance(act, exp);
    if d != reference {
        return Some(("reported_distance_not_minimal".into(), format!("reported {d}, minimal edit distance {reference}")));
    }
    if non_keep != d {
        return Some(("script_length_differs_from_distance".into(), format!("script {ops:?} has {non_keep} non-keep operations, reported distance {d}")));
    }
    None
}

fn run_c31(tier: Tier, replay: Option<&str>) -> i32 {
    if let Some(p) = replay {
        let v = read_replay(p);
        let act: Vec<u16> = serde_json::from_value(v["act"].clone()).unwrap();
        let exp: Vec<u16> = serde_json::from_value(v["exp"].clone()).unwrap();
        return replay_verdict("C31", p, || {
            check_pair(&act, &exp)
                .map(|(c, w)| vec![Violation { class: c, what: w, case: json!({"act": act, "exp": exp}), detail: json!({}) }])
                .unwrap_or_default()
        });
    }
    let ctx = Ctx::new("C31", tier);
    let acc = Acc::default();
    let n = tier.pick(5, 7);
    let alpha = 3u16;
    let all = seqs(alpha, n);
    // a 4th symbol on shorter sequences
    let all4 = seqs(4, tier.pick(4, 6));
    let run = |list: &Vec<Vec<u16>>| {
        list.par_iter().for_each(|a| {
            if ctx.expired() {
                return;
            }
            for b in list {
                acc.eval(1);
                if let Some((class, what)) = check_pair(a, b) {
                    acc.violation(Violation { class, what: format!("act {a:?} exp {b:?}: {what}"), case: json!({"act": a, "exp": b}), detail: json!({}) });
                }
            }
            acc.distinct_n(list.len() as u64 - 1);
        });
    };
    run(&all);
    run(&all4);
    acc.sample(json!({"act": [0, 1, 2], "exp": [2, 1], "reference_distance": dp_distance(&[0, 1, 2], &[2, 1])}));
    acc.sample(json!({"act": [], "exp": [1, 1, 0], "reference_distance": 3}));
    acc.outcome("checked");
    acc.outcome("pairs");
    finish(
        &ctx,
        &acc,
        Finish {
            level: "exploration",
            rule: format!("all ordered pairs of token-type sequences over 3 symbols of length <= {n} and over 4 symbols of length <= {}; through hook H1 to the crate-private Recovery::levenshtein_distance; oracle: the script applied the way adjust_token_stream applies it turns `act` into `exp`, its number of non-keep operations equals the returned distance, which equals a textbook DP edit distance. Non-trivial = pairs of different sequences.", tier.pick(4, 6)),
            exhaustive_note: "all pairs".into(),
            assumptions: vec!["hook H1 re-exports the private function unchanged".into()],
            extra: json!({}),
        },
    )
}

// ---------------------------------------------------------------------------------------------
// C32
// ---------------------------------------------------------------------------------------------

const EPS: u16 = 0xFFFF;
const MAX_K: usize = 10;

/// model of a Terminals value: a bounded sequence of terminal indices; eps is the one-element
/// sequence [EPS]
#[derive(Clone, Debug, PartialEq, Eq, Hash)]
struct Model {
    v: Vec<u16>,
}

#[derive(Clone, Copy, Debug, PartialEq, Eq, Hash, serde::Serialize, serde::Deserialize)]
enum Op {
    New,
    Eps,
    End,
    Push(u16),
    ConcatEps(usize),
    ConcatEnd(usize),
    ConcatSeq(u16, u16, usize),
    ConcatSelf(usize),
    Of(usize),
    Clear,
}

fn model_is_eps(m: &Model) -> bool {
    m.v == [EPS]
}
fn model_k_complete(m: &Model, k: usize) -> bool {
    !model_is_eps(m) && (m.v.len() >= k || m.v.last() == Some(&0))
}
fn model_concat(a: &Model, b: &Model, k: usize) -> Model {
    if model_is_eps(b) || b.v.is_empty() {
        return a.clone();
    }
    let mut x = if model_is_eps(a) { vec![] } else { a.v.clone() };
    if !x.is_empty() && (x.len() >= k || x.last() == Some(&0)) {
        return Model { v: x };
    }
    if x.is_empty() && model_is_eps(a) && k == 0 {
        // nothing can be taken
        return Model { v: x };
    }
    for t in &b.v {
        if x.len() >= k {
            break;
        }
        x.push(*t);
    }
    Model { v: x }
}

fn apply(op: Op, t: Terminals, m: &Model, max_ti: usize) -> Result<(Terminals, Model), String> {
    let mk = |v: &[u16]| -> Terminals {
        let mut t = Terminals::new(max_ti);
        for x in v {
            let _ = t.push(CompiledTerminal(*x));
        }
        t
    };
    Ok(match op {
        Op::New => (Terminals::new(max_ti), Model { v: vec![] }),
        Op::Eps => (Terminals::eps(max_ti), Model { v: vec![EPS] }),
        Op::End => (Terminals::end(max_ti), Model { v: vec![0] }),
        Op::Push(x) => {
            let mut t2 = t;
            let r = t2.push(CompiledTerminal(x));
            let mut m2 = m.clone();
            if m2.v.len() >= MAX_K {
                if r.is_ok() {
                    return Err("push beyond MAX_K reported success".into());
                }
            } else if m2.v.last() == Some(&0) && !m2.v.is_empty() {
                // nothing can follow end of input
            } else if model_is_eps(&m2) {
                // pushing onto eps is not used by the analysis; skip (not part of the sequence contract)
                return Ok((t, m.clone()));
            } else {
                r.map_err(|e| format!("push failed: {e}"))?;
                m2.v.push(x);
            }
            (t2, m2)
        }
        Op::ConcatEps(k) => (t.k_concat(&Terminals::eps(max_ti), k), model_concat(m, &Model { v: vec![EPS] }, k)),
        Op::ConcatEnd(k) => (t.k_concat(&Terminals::end(max_ti), k), model_concat(m, &Model { v: vec![0] }, k)),
        Op::ConcatSeq(a, b, k) => {
            let o = vec![a, b];
            (t.k_concat(&mk(&o), k), model_concat(m, &Model { v: o }, k))
        }
        Op::ConcatSelf(k) => (t.k_concat(&t.clone(), k), model_concat(m, m, k)),
        Op::Of(k) => (Terminals::of(k, t), Model { v: m.v.iter().take(k).cloned().collect() }),
        Op::Clear => {
            let mut t2 = t;
            t2.clear();
            (t2, Model { v: vec![] })
        }
    })
}

fn observe(t: &Terminals, m: &Model, max_ti: usize) -> Option<String> {
    let _ = max_ti;
    if t.len() != m.v.len() {
        return Some(format!("len {} vs sequence {:?}", t.len(), m.v));
    }
    if t.is_empty() != m.v.is_empty() {
        return Some(format!("is_empty {} vs sequence {:?}", t.is_empty(), m.v));
    }
    let it: Vec<u16> = t.iter().collect();
    if it != m.v {
        return Some(format!("iter {:?} vs sequence {:?}", it, m.v));
    }
    for i in 0..=m.v.len() + 1 {
        let g = t.get(i).map(|c| c.0);
        if g != m.v.get(i).copied() {
            return Some(format!("get({i}) = {g:?} vs sequence {:?}", m.v));
        }
    }
    if t.is_eps() != model_is_eps(m) {
        return Some(format!("is_eps {} vs sequence {:?}", t.is_eps(), m.v));
    }
    for k in 0..=MAX_K {
        if t.is_k_complete(k) != model_k_complete(m, k) {
            return Some(format!("is_k_complete({k}) = {} vs sequence {:?}", t.is_k_complete(k), m.v));
        }
        if t.k_len(k) != m.v.len().min(k) {
            return Some(format!("k_len({k}) = {} vs sequence {:?}", t.k_len(k), m.v));
        }
    }
    None
}

#[derive(serde::Serialize, serde::Deserialize, Clone, Debug)]
struct C32Case {
    max_ti: usize,
    ops: Vec<Op>,
    /// a second history that must lead to the same value
    #[serde(default)]
    other: Option<Vec<Op>>,
}

fn replay_ops(case: &C32Case) -> Vec<Violation> {
    let mut t = Terminals::new(case.max_ti);
    let mut m = Model { v: vec![] };
    for (i, op) in case.ops.iter().enumerate() {
        match catch(|| apply(*op, t, &m, case.max_ti)) {
            Ok(Ok((t2, m2))) => {
                t = t2;
                m = m2;
            }
            Ok(Err(e)) => return vec![Violation { class: "operation_contract".into(), what: format!("max_terminal_index {} ops {:?}: {e}", case.max_ti, &case.ops[..=i]), case: json!(case), detail: json!({}) }],
            Err(p) => return vec![Violation { class: format!("panic_in_{:?}", op).split('(').next().unwrap().to_string(), what: format!("max_terminal_index {} ops {:?}: {}", case.max_ti, &case.ops[..=i], panic_site(&p)), case: json!(case), detail: json!({}) }],
        }
        if let Some(d) = observe(&t, &m, case.max_ti) {
            return vec![Violation { class: "packed_value_differs_from_sequence".into(), what: format!("max_terminal_index {} after {:?}: {d}", case.max_ti, &case.ops[..=i]), case: json!(case), detail: json!({}) }];
        }
    }
    if let Some(other) = &case.other {
        let mut t2 = Terminals::new(case.max_ti);
        let mut m2 = Model { v: vec![] };
        for op in other {
            if let Ok(Ok((a, b))) = catch(|| apply(*op, t2, &m2, case.max_ti)) {
                t2 = a;
                m2 = b;
            }
        }
        if m.v == m2.v && (t != t2 || hash_of(&t) != hash_of(&t2) || t.cmp(&t2) != std::cmp::Ordering::Equal) {
            return vec![Violation {
                class: "equal_sequences_reached_by_different_histories_are_unequal_values".into(),
                what: format!("max_terminal_index {}: {:?} and {:?} both denote {:?} but == is {}, cmp is {:?}", case.max_ti, case.ops, other, m.v, t == t2, t.cmp(&t2)),
                case: json!(case),
                detail: json!({}),
            }];
        }
    }
    vec![]
}

fn run_c32(tier: Tier, replay: Option<&str>) -> i32 {
    if let Some(p) = replay {
        let v = read_replay(p);
        let case: C32Case = serde_json::from_value(v).expect("bad replay");
        return replay_verdict("C32", p, || replay_ops(&case));
    }
    let ctx = Ctx::new("C32", tier);
    let acc = Acc::default();
    // alphabet sizes at both sides of every power of two up to the 12 bit limit
    let mut sizes: Vec<usize> = vec![];
    for b in 1..=12u32 {
        let p = 1usize << b;
        for s in [p - 2, p - 1, p] {
            if s >= 1 && s + 1 < 4096 && !sizes.contains(&s) {
                sizes.push(s);
            }
        }
    }
    sizes.push(4094);
    let depth = tier.pick(4, 7);
    let states_total = std::sync::atomic::AtomicU64::new(0);
    let trans_total = std::sync::atomic::AtomicU64::new(0);
    sizes.par_iter().for_each(|max_ti| {
        let max_ti = *max_ti;
        let hi = max_ti as u16;
        let reps: Vec<u16> = { let mut v = vec![0u16, 1, hi.saturating_sub(1), hi]; v.dedup(); v.sort(); v.dedup(); v };
        let mut alphabet: Vec<Op> = vec![Op::New, Op::Eps, Op::End, Op::Clear];
        for r in &reps {
            alphabet.push(Op::Push(*r));
        }
        for k in [0usize, 1, 2, 5, 10] {
            alphabet.push(Op::ConcatEps(k));
            alphabet.push(Op::ConcatEnd(k));
            alphabet.push(Op::ConcatSeq(1, hi, k));
            alphabet.push(Op::ConcatSelf(k));
            alphabet.push(Op::Of(k));
        }
        // BFS over operation sequences, dedup on the model sequence (the observable content)
        // state = (denoted sequence, hash of the real value): a correct implementation has one real value
        // per sequence, so the second component only adds states when residue bits differ
        let mut seen: HashSet<(Vec<u16>, u64)> = HashSet::new();
        let mut rep: std::collections::HashMap<Vec<u16>, (Terminals, Vec<Op>)> = std::collections::HashMap::new();
        let mut queue: VecDeque<Vec<Op>> = VecDeque::new();
        queue.push_back(vec![]);
        seen.insert((vec![], hash_of(&Terminals::new(max_ti))));
        rep.insert(vec![], (Terminals::new(max_ti), vec![]));
        let mut reals: Vec<(Terminals, Model)> = vec![];
        while let Some(ops) = queue.pop_front() {
            // rebuild
            let mut t = Terminals::new(max_ti);
            let mut m = Model { v: vec![] };
            let mut ok = true;
            for op in &ops {
                match catch(|| apply(*op, t, &m, max_ti)) {
                    Ok(Ok((t2, m2))) => {
                        t = t2;
                        m = m2;
                    }
                    _ => {
                        ok = false;
                        break;
                    }
                }
            }
            if !ok {
                continue;
            }
            reals.push((t, m.clone()));
            if ops.len() >= depth {
                continue;
            }
            for op in &alphabet {
                trans_total.fetch_add(1, std::sync::atomic::Ordering::Relaxed);
                acc.eval(1);
                let mut nx = ops.clone();
                nx.push(*op);
                let case = C32Case { max_ti, ops: nx.clone(), other: None };
                match catch(|| apply(*op, t, &m, max_ti)) {
                    Ok(Ok((t2, m2))) => {
                        if let Some(d) = observe(&t2, &m2, max_ti) {
                            acc.violation(Violation { class: "packed_value_differs_from_sequence".into(), what: format!("max_terminal_index {max_ti} after {nx:?}: {d}"), case: json!(case), detail: json!({}) });
                            continue;
                        }
                        // the same sequence reached by another history must be the same value
                        match rep.get(&m2.v) {
                            None => {
                                rep.insert(m2.v.clone(), (t2, nx.clone()));
                            }
                            Some((r, rops)) => {
                                if *r != t2 || hash_of(r) != hash_of(&t2) || r.cmp(&t2) != std::cmp::Ordering::Equal {
                                    acc.violation(Violation {
                                        class: "equal_sequences_reached_by_different_histories_are_unequal_values".into(),
                                        what: format!("max_terminal_index {max_ti}: {nx:?} and {rops:?} both denote {:?} but == is {}, cmp is {:?}, hashes equal: {}", m2.v, *r == t2, r.cmp(&t2), hash_of(r) == hash_of(&t2)),
                                        case: json!(C32Case { max_ti, ops: nx.clone(), other: Some(rops.clone()) }),
                                        detail: json!({"other_history": format!("{rops:?}")}),
                                    });
                                }
                            }
                        }
                        if seen.insert((m2.v.clone(), hash_of(&t2))) {
                            queue.push_back(nx);
                        }
                    }
                    Ok(Err(e)) => acc.violation(Violation { class: "operation_contract".into(), what: format!("max_terminal_index {max_ti} ops {nx:?}: {e}"), case: json!(case), detail: json!({}) }),
                    Err(p) => {
                        let cls = format!("panic_in_{:?}", op).split('(').next().unwrap().to_string();
                        acc.violation(Violation { class: cls, what: format!("max_terminal_index {max_ti} ops {nx:?}: {}", panic_site(&p)), case: json!(case), detail: json!({}) });
                    }
                }
            }
        }
        states_total.fetch_add(seen.len() as u64, std::sync::atomic::Ordering::Relaxed);
        // equality and ordering over all reached values (incl. the same sequence reached by
        // different operation histories = different residue bits)
        let n = reals.len().min(tier.pick(400, 1500));
        for i in 0..n {
            for j in 0..n {
                let (a, ma) = &reals[i];
                let (b, mb) = &reals[j];
                let eq_model = ma == mb;
                if (a == b) != eq_model {
                    acc.violation(Violation {
                        class: "equality_differs_from_sequence_equality".into(),
                        what: format!("max_terminal_index {max_ti}: values denoting {:?} and {:?} compare equal={}", ma.v, mb.v, a == b),
                        case: json!({"max_ti": max_ti, "a": ma.v, "b": mb.v}),
                        detail: json!({}),
                    });
                }
                let o = a.cmp(b);
                if (o == std::cmp::Ordering::Equal) != eq_model {
                    acc.violation(Violation {
                        class: "ordering_inconsistent_with_equality".into(),
                        what: format!("max_terminal_index {max_ti}: cmp of {:?} and {:?} is {:?}", ma.v, mb.v, o),
                        case: json!({"max_ti": max_ti, "a": ma.v, "b": mb.v}),
                        detail: json!({}),
                    });
                }
                if o != b.cmp(a).reverse() {
                    acc.violation(Violation { class: "ordering_not_antisymmetric".into(), what: format!("{:?} vs {:?}", ma.v, mb.v), case: json!({"max_ti": max_ti, "a": ma.v, "b": mb.v}), detail: json!({}) });
                }
            }
        }
        // KTuple level: equality of tuples built in different ways from the same sequence
        for (_, m) in reals.iter().take(200) {
            if model_is_eps(m) || m.v.is_empty() || m.v.iter().any(|x| *x == EPS) {
                continue;
            }
            for k in [1usize, 2, 3, 10] {
                let r = catch(|| {
                    let a = KTupleBuilder::new().k(k).max_terminal_index(max_ti).terminal_string(&m.v).build().unwrap();
                    let cts: Vec<CompiledTerminal> = m.v.iter().map(|x| CompiledTerminal(*x)).collect();
                    let b = KTuple::from_slice(&cts, k, max_ti);
                    (a == b, a.len(), b.len(), a.terminals().iter().collect::<Vec<u16>>())
                });
                match r {
                    Ok((eq, la, lb, seq)) => {
                        let want: Vec<u16> = {
                            let mut w = vec![];
                            for x in m.v.iter().take(k) {
                                w.push(*x);
                                if *x == 0 {
                                    break;
                                }
                            }
                            w
                        };
                        if !eq || la != lb || seq != want {
                            acc.violation(Violation {
                                class: "ktuple_construction_paths_disagree".into(),
                                what: format!("max_terminal_index {max_ti} k={k} sequence {:?}: builder vs from_slice equal={eq}, lens {la}/{lb}, content {seq:?}, expected {want:?}", m.v),
                                case: json!({"max_ti": max_ti, "seq": m.v, "k": k}),
                                detail: json!({}),
                            });
                        }
                    }
                    Err(p) => acc.violation(Violation { class: "panic_in_ktuple".into(), what: format!("max_terminal_index {max_ti} k={k} {:?}: {}", m.v, panic_site(&p)), case: json!({"max_ti": max_ti, "seq": m.v, "k": k}), detail: json!({}) }),
                }
            }
        }
        // KTuple level, operation sequences at a fixed nominal k: values reached by different
        // histories that denote the same sequence must be equal
        if max_ti == 6 || max_ti == 7 || max_ti == 4094 {
            for k in [1usize, 2, 3] {
                let hi = max_ti as u16;
                let seqs: Vec<Vec<u16>> = vec![vec![1], vec![1, 2], vec![1, 0], vec![hi, hi, hi], vec![2]];
                let build = |v: &Vec<u16>| KTupleBuilder::new().k(k).max_terminal_index(max_ti).terminal_string(v).build().unwrap();
                let trunc = |v: &[u16]| -> Vec<u16> {
                    let mut w = vec![];
                    for x in v.iter().take(k) {
                        w.push(*x);
                        if *x == 0 {
                            break;
                        }
                    }
                    w
                };
                // (real, model sequence, history)
                let mut vals: Vec<(KTuple, Vec<u16>, String)> = vec![];
                let eps = KTupleBuilder::new().k(k).max_terminal_index(max_ti).eps().unwrap();
                let end = KTupleBuilder::new().k(k).max_terminal_index(max_ti).end().unwrap();
                vals.push((eps, vec![], "eps".into()));
                vals.push((end, vec![0], "end".into()));
                for s in &seqs {
                    vals.push((build(s), trunc(s), format!("build({s:?})")));
                }
                for _round in 0..2 {
                    let cur = vals.clone();
                    for (a, ma, ha) in &cur {
                        for (b, mb, hb) in cur.iter().take(7) {
                            acc.eval(1);
                            let r = catch(|| a.k_concat(b, k));
                            match r {
                                Ok(c) => {
                                    let mut m = ma.clone();
                                    if !(m.len() >= k || m.last() == Some(&0)) {
                                        for x in mb {
                                            if m.len() >= k {
                                                break;
                                            }
                                            m.push(*x);
                                        }
                                    }
                                    let got: Vec<u16> = if c.is_eps() { vec![] } else { c.terminals().iter().collect() };
                                    if got != m {
                                        acc.violation(Violation { class: "ktuple_concat_differs_from_sequence".into(), what: format!("max_terminal_index {max_ti} k={k}: ({ha}) (+) ({hb}) = {got:?}, sequences give {m:?}"), case: json!({"max_ti": max_ti, "k": k, "a": ha, "b": hb}), detail: json!({}) });
                                    }
                                    if vals.len() < 400 {
                                        vals.push((c, m, format!("({ha})+({hb})")));
                                    }
                                }
                                Err(p) => acc.violation(Violation { class: "panic_in_ktuple_concat".into(), what: format!("max_terminal_index {max_ti} k={k}: ({ha}) (+) ({hb}): {}", panic_site(&p)), case: json!({"max_ti": max_ti, "k": k, "a": ha, "b": hb}), detail: json!({}) }),
                            }
                        }
                    }
                }
                for (a, ma, ha) in &vals {
                    for (b, mb, hb) in &vals {
                        // weaker reading: a KTuple's own k() is part of its value, so equality is
                        // demanded only between tuples that report the same k()
                        if a.k() == b.k() && (ma == mb) != (a == b) {
                            acc.violation(Violation {
                                class: "ktuple_equality_differs_from_sequence_equality".into(),
                                what: format!("max_terminal_index {max_ti} k={k}: {ha} denotes {ma:?}, {hb} denotes {mb:?}, but == gives {} ({a:?} vs {b:?})", a == b),
                                case: json!({"max_ti": max_ti, "k": k, "a": ha, "b": hb}),
                                detail: json!({}),
                            });
                        }
                    }
                }
            }
        }
        acc.distinct(&max_ti);
        acc.outcome(&format!("bits={}", Terminals::new(max_ti).bits()));
        if acc.want_sample() {
            acc.sample(json!({"max_terminal_index": max_ti, "distinct_sequences_reached": seen.len(), "values_compared_pairwise": n}));
        }
    });
    let st = states_total.load(std::sync::atomic::Ordering::Relaxed).max(1);
    let tr = trans_total.load(std::sync::atomic::Ordering::Relaxed).max(1);
    finish(
        &ctx,
        &acc,
        Finish {
            level: "model_checking",
            rule: format!("for every alphabet size at both sides of each power of two up to the 12-bit limit ({} sizes): breadth-first search to depth {depth} over operation sequences {{new, eps, end, clear, push(t) for t in {{EOI, 1, max-1, max}}, k_concat with eps / end / a 2-sequence / itself for k in {{0,1,2,5,10}}, of(k)}} on the real Terminals value next to a Vec model; after every operation len, is_empty, iter, get(i), is_eps, is_k_complete(k), k_len(k) for all k <= 10 must agree with the model; all reached values are compared pairwise: == iff equal sequences, Ord consistent with equality and antisymmetric (nothing more is demanded of the order); KTuples built through the builder and from_slice from the same sequence must be equal.", sizes.len()),
            exhaustive_note: "BFS complete to the stated depth (states deduplicated on the denoted sequence) unless capped=true".into(),
            assumptions: vec!["pushing onto an epsilon value is outside the contract (not used by the analysis) and not explored".into()],
            extra: json!({"states": st, "transitions": tr, "traces_validated_against_impl": tr,
                "explanation": "the explored object is the real Terminals value; the Vec model is only the oracle"}),
        },
    )
}

pub fn run(id: &str, tier: Tier, replay: Option<&str>) -> i32 {
    match id {
        "C31" => run_c31(tier, replay),
        _ => run_c32(tier, replay),
    }
}
