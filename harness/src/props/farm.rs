//! C22 (generated Rust compiles for every accepted grammar) and C23 (the typed AST mirrors the
//! input): generated sources are compiled by rustc as modules of one "farm" crate per batch.

use rayon::prelude::*;
use serde_json::{Value, json};
use std::path::PathBuf;

use crate::bind::{GenCfg, RunOpts, generate_and_bind};
use crate::common::*;

#[derive(serde::Serialize, serde::Deserialize, Clone, Debug)]
pub struct FarmCase {
    pub par: String,
    pub min_boxed: bool,
    pub range: bool,
    pub trim: bool,
    /// token texts for C23 inputs (terminal texts, in grammar order); empty = not used for C23
    pub tokens: Vec<String>,
    /// C23: (token text, kind) where kind: "opt" = occurs inside exactly one optional, "rep" =
    /// inside exactly one repetition, "clip" = clipped, "plain"
    pub roles: Vec<(String, String)>,
}

struct Module {
    case: FarmCase,
    parser: String,
    trait_src: String,
    gram_rs: String,
}

fn farm_root() -> PathBuf {
    verif_root().join(".build").join("farm")
}

/// Generate the three files of one module. Err(reason) = parol rejects the grammar (not a C22 case).
fn make_module(case: &FarmCase, idx: usize) -> Result<Module, String> {
    let cfg = GenCfg { min_boxed: case.min_boxed, range: case.range, trim: case.trim, ..Default::default() };
    let built = crate::bind::builder_generate_named(&case.par, 3, &cfg, "Gram", &format!("g{idx}::gram"))?;
    // start symbol
    let start = case.par.lines().find_map(|l| l.strip_prefix("%start ")).unwrap_or("S").trim().to_string();
    let file = syn::parse_file(&built.actions).map_err(|e| format!("SYNTAX:{e}"))?;
    let mut trait_has_lt = false;
    let mut method: Option<(String, String)> = None;
    for item in &file.items {
        if let syn::Item::Trait(t) = item {
            if t.ident == "GramTrait" {
                trait_has_lt = t.generics.lifetimes().count() > 0;
                for it in &t.items {
                    if let syn::TraitItem::Fn(f) = it {
                        let doc: String = f.attrs.iter().filter_map(|a| if a.path().is_ident("doc") { Some(quote_attr(a)) } else { None }).collect();
                        if doc.contains(&format!("non-terminal '{start}'")) {
                            let arg_ty = f.sig.inputs.iter().nth(1).map(|a| match a {
                                syn::FnArg::Typed(p) => type_str(&p.ty),
                                _ => String::new(),
                            });
                            method = Some((f.sig.ident.to_string(), arg_ty.unwrap_or_default()));
                        }
                    }
                }
            }
        }
    }
    let (mname, arg_ty) = method.ok_or_else(|| format!("NOSTART: no trait method for start symbol {start}"))?;
    let struct_has_lt = built.parser.replace(' ', "").contains("&mutGram<'t>");
    let s_lt = if struct_has_lt { "<'t>" } else { "" };
    let t_lt = if trait_has_lt { "<'t>" } else { "" };
    let impl_lt = if struct_has_lt || trait_has_lt { "<'t>" } else { "" };
    let phantom = if struct_has_lt { "_p: std::marker::PhantomData<&'t str>," } else { "" };
    let phantom_init = if struct_has_lt { "_p: std::marker::PhantomData," } else { "" };
    // hygienic user code: no glob imports, std names fully qualified, so that a non-terminal
    // named like a std type cannot break *this* file
    let arg_ty = arg_ty.replacen('&', "&super::gram_trait::", 1);
    let gram_rs = format!(
        "#![allow(unused_imports, dead_code)]\npub struct Gram{s_lt} {{ pub out: std::vec::Vec<std::string::String>, pub calls: usize, {phantom} }}\nimpl{impl_lt} super::gram_trait::GramTrait{t_lt} for Gram{s_lt} {{\n    fn {mname}(&mut self, arg: {arg_ty}) -> parol_runtime::Result<()> {{\n        self.calls += 1;\n        self.out.push(format!(\"{{:?}}\", arg));\n        std::result::Result::Ok(())\n    }}\n}}\npub fn run(input: &str) -> (bool, usize, std::vec::Vec<std::string::String>) {{\n    let mut g = Gram {{ out: std::vec::Vec::new(), calls: 0, {phantom_init} }};\n    let r = super::parser::parse(input, \"in.txt\", &mut g);\n    (r.is_ok(), g.calls, g.out)\n}}\n"
    );
    Ok(Module { case: case.clone(), parser: built.parser, trait_src: built.actions, gram_rs })
}

fn quote_attr(a: &syn::Attribute) -> String {
    if let syn::Meta::NameValue(nv) = &a.meta {
        if let syn::Expr::Lit(l) = &nv.value {
            if let syn::Lit::Str(s) = &l.lit {
                return s.value();
            }
        }
    }
    String::new()
}

fn type_str(t: &syn::Type) -> String {
    // render a type back to source text
    fn ts(t: &syn::Type) -> String {
        match t {
            syn::Type::Reference(r) => format!("&{}{}", if r.mutability.is_some() { "mut " } else { "" }, ts(&r.elem)),
            syn::Type::Path(p) => p
                .path
                .segments
                .iter()
                .map(|s| {
                    let args = match &s.arguments {
                        syn::PathArguments::AngleBracketed(a) => {
                            let inner: Vec<String> = a
                                .args
                                .iter()
                                .map(|g| match g {
                                    syn::GenericArgument::Lifetime(l) => format!("'{}", l.ident),
                                    syn::GenericArgument::Type(t) => ts(t),
                                    _ => String::new(),
                                })
                                .collect();
                            format!("<{}>", inner.join(", "))
                        }
                        _ => String::new(),
                    };
                    format!("{}{}", s.ident, args)
                })
                .collect::<Vec<_>>()
                .join("::"),
            _ => "()".to_string(),
        }
    }
    ts(t)
}

struct Batch {
    dir: PathBuf,
    modules: Vec<(usize, Module)>,
}

fn write_batch(name: &str, modules: Vec<(usize, Module)>) -> std::io::Result<Batch> {
    let dir = farm_root().join(name);
    let _ = std::fs::remove_dir_all(&dir);
    std::fs::create_dir_all(dir.join("src"))?;
    std::fs::create_dir_all(dir.join(".cargo"))?;
    let tmpl = verif_root().join("gen_farm");
    // one crate (and binary) name per batch so that checks running at the same time share the compiled
    // dependencies in the common target directory but never each other's binary
    let crate_name = format!("farm_{}", name.to_lowercase().replace('-', "_"));
    std::fs::write(dir.join("Cargo.toml"), std::fs::read_to_string(tmpl.join("Cargo.toml.tmpl"))?.replace("name = \"farm\"", &format!("name = \"{crate_name}\"")))?;
    std::fs::write(dir.join(".cargo").join("config.toml"), std::fs::read_to_string(tmpl.join(".cargo").join("config.toml"))?)?;
    std::fs::copy("/repo/Cargo.lock", dir.join("Cargo.lock"))?;
    std::fs::write(dir.join("src").join("ut.rs"), std::fs::read_to_string(tmpl.join("src").join("ut.rs"))?)?;
    for (i, m) in &modules {
        let md = dir.join("src").join(format!("g{i}"));
        std::fs::create_dir_all(&md)?;
        std::fs::write(md.join("mod.rs"), "#![allow(clippy::all, unused)]\npub mod gram;\npub mod gram_trait;\npub mod parser;\n")?;
        std::fs::write(md.join("parser.rs"), &m.parser)?;
        std::fs::write(md.join("gram_trait.rs"), &m.trait_src)?;
        std::fs::write(md.join("gram.rs"), &m.gram_rs)?;
    }
    let b = Batch { dir, modules };
    write_main(&b, &[])?;
    Ok(b)
}

fn write_main(b: &Batch, excluded: &[usize]) -> std::io::Result<()> {
    let mut s = String::from("#![allow(unused)]\npub mod ut;\n");
    for (i, _) in &b.modules {
        if !excluded.contains(i) {
            s.push_str(&format!("mod g{i};\n"));
        }
    }
    s.push_str("fn unhex(s: &str) -> String { let b: Vec<u8> = (0..s.len() / 2).map(|i| u8::from_str_radix(&s[2 * i..2 * i + 2], 16).unwrap()).collect(); String::from_utf8(b).unwrap() }\n");
    s.push_str("fn main() {\n    let idx: usize = std::env::args().nth(1).unwrap().parse().unwrap();\n    let mut line = String::new();\n    while std::io::stdin().read_line(&mut line).unwrap() > 0 {\n        let input = unhex(line.trim());\n        let (ok, calls, out) = match idx {\n");
    for (i, _) in &b.modules {
        if !excluded.contains(i) {
            s.push_str(&format!("            {i} => g{i}::gram::run(&input),\n"));
        }
    }
    s.push_str("            _ => (false, 0, vec![]),\n        };\n        println!(\"{}\\t{}\\t{}\", ok, calls, out.join(\"\\u{1f}\"));\n        line.clear();\n    }\n}\n");
    std::fs::write(b.dir.join("src").join("main.rs"), s)
}

/// cargo build; returns per-module first error message
fn build(b: &Batch) -> Result<(), Vec<(usize, String)>> {
    let out = std::process::Command::new("cargo")
        .current_dir(&b.dir)
        .env("CARGO_TARGET_DIR", farm_root().join("target"))
        .env("CARGO_NET_OFFLINE", "true")
        .args(["build", "--offline", "--message-format", "short"])
        .output();
    let out = match out {
        Ok(o) => o,
        Err(e) => return Err(vec![(usize::MAX, format!("cannot run cargo: {e}"))]),
    };
    if out.status.success() {
        return Ok(());
    }
    let err = String::from_utf8_lossy(&out.stderr).to_string();
    let mut per: Vec<(usize, String)> = vec![];
    for l in err.lines() {
        if let Some(p) = l.find("src/g") {
            if l.contains("error") {
                let rest = &l[p + 5..];
                let num: String = rest.chars().take_while(|c| c.is_ascii_digit()).collect();
                if let Ok(i) = num.parse::<usize>() {
                    if !per.iter().any(|x| x.0 == i) {
                        per.push((i, l.trim().chars().take(400).collect()));
                    }
                }
            }
        }
    }
    if per.is_empty() {
        per.push((usize::MAX, err.lines().filter(|l| l.contains("error")).take(5).collect::<Vec<_>>().join(" | ")));
    }
    Err(per)
}

fn hex(s: &str) -> String {
    s.bytes().map(|b| format!("{b:02x}")).collect()
}

/// run the compiled farm binary for one module on inputs
fn run_module(batch_name: &str, idx: usize, inputs: &[String]) -> Result<Vec<(bool, usize, Vec<String>)>, String> {
    use std::io::Write;
    let exe = farm_root().join("target").join("debug").join(format!("farm_{}", batch_name.to_lowercase().replace('-', "_")));
    let mut child = std::process::Command::new(exe)
        .arg(idx.to_string())
        .stdin(std::process::Stdio::piped())
        .stdout(std::process::Stdio::piped())
        .stderr(std::process::Stdio::null())
        .spawn()
        .map_err(|e| e.to_string())?;
    {
        let mut stdin = child.stdin.take().unwrap();
        for i in inputs {
            writeln!(stdin, "{}", hex(i)).map_err(|e| e.to_string())?;
        }
    }
    let out = child.wait_with_output().map_err(|e| e.to_string())?;
    let text = String::from_utf8_lossy(&out.stdout).to_string();
    let res: Vec<(bool, usize, Vec<String>)> = text
        .lines()
        .map(|l| {
            let mut p = l.splitn(3, '\t');
            let ok = p.next() == Some("true");
            let calls = p.next().and_then(|x| x.parse().ok()).unwrap_or(0);
            let o = p.next().unwrap_or("");
            (ok, calls, if o.is_empty() { vec![] } else { o.split('\u{1f}').map(|s| s.to_string()).collect() })
        })
        .collect();
    if res.len() != inputs.len() {
        return Err(format!("farm binary produced {} results for {} inputs (status {:?}): it crashed on input #{}", res.len(), inputs.len(), out.status, res.len()));
    }
    Ok(res)
}

// ---------------------------------------------------------------------------------------------
// grammar space
// ---------------------------------------------------------------------------------------------

fn cases(tier: Tier) -> Vec<FarmCase> {
    let mut v = vec![];
    let mk = |par: String, tokens: &[&str], roles: &[(&str, &str)], opt: usize| FarmCase {
        par,
        min_boxed: opt & 1 == 1,
        range: opt & 2 == 2,
        trim: opt & 4 == 4,
        tokens: tokens.iter().map(|s| s.to_string()).collect(),
        roles: roles.iter().map(|(a, b)| (a.to_string(), b.to_string())).collect(),
    };
    // (body, tokens, roles)
    let bodies: Vec<(&str, Vec<&str>, Vec<(&str, &str)>)> = vec![
        ("S: 'a' [ 'b' ] { 'c' };", vec!["a", "b", "c"], vec![("a", "plain"), ("b", "opt"), ("c", "rep")]),
        ("S: 'a'^ [ 'b' 'd'^ ] { 'c' };", vec!["a", "b", "c", "d"], vec![("a", "clip"), ("b", "opt"), ("c", "rep"), ("d", "clip")]),
        ("S: A { B } [ C ];\nA: 'a';\nB: 'b'@bee;\nC: 'c' | 'd';", vec!["a", "b", "c", "d"], vec![("a", "plain"), ("b", "rep"), ("c", "plain"), ("d", "plain")]),
        ("S: ( 'a' | 'b' ) { ( 'c' | 'd' 'a' ) };", vec!["a", "b", "c", "d"], vec![]),
        ("S: 'a' S 'b' | 'c';", vec!["a", "b", "c"], vec![("a", "plain"), ("b", "plain"), ("c", "plain")]),
        ("S: [ [ 'a' ] 'b' ] { { 'c' } 'd' };", vec!["a", "b", "c", "d"], vec![]),
        ("S: 'a' : crate::ut::T [ 'b'@x : crate::ut::T ] { 'c' };", vec!["a", "b", "c"], vec![]),
        ("S: A^ B;\nA: 'a';\nB: { 'b' };", vec!["a", "b"], vec![("a", "clip"), ("b", "rep")]),
        ("S: { A };\nA: 'a'^ | 'b' [ 'c'^ ];", vec!["a", "b", "c"], vec![("a", "clip"), ("b", "plain"), ("c", "clip")]),
        // repetitions / optionals directly inside each other, with distinguishable items
        ("S: { { N } ';' };\nN: 'a' | 'b';", vec!["a", "b", ";"], vec![]),
        ("S: { { ( 'a' | 'b' ) } 'c' };", vec!["a", "b", "c"], vec![]),
        ("S: [ { [ 'a' ] 'b' } 'c' ] 'd';", vec!["a", "b", "c", "d"], vec![]),
        ("S: { [ 'a' | 'b' ] 'c' };", vec!["a", "b", "c"], vec![]),
        ("S: { A } { B };\nA: 'a' 'x';\nB: 'b' | 'c';", vec!["a", "x", "b", "c"], vec![]),
        ("S: { ( { 'a' } 'b' | 'c' ) };", vec!["a", "b", "c"], vec![]),
        // productions whose only members are clipped non-terminals; clipped non-terminals inside optionals / repetitions
        ("S: 'a' Sep 'b';\nSep: Comma^;\nComma: ',';", vec!["a", "b", ","], vec![("a", "plain"), ("b", "plain"), (",", "clip")]),
        ("S: 'a' { Sep^ 'b' };\nSep: ',';", vec!["a", "b", ","], vec![("a", "plain"), (",", "clip")]),
        ("S: A^ B^;\nA: 'a';\nB: 'b' | ;", vec!["a", "b"], vec![("a", "clip"), ("b", "clip")]),
        ("S: [ A^ ] 'b';\nA: 'a' { 'a' };", vec!["a", "b"], vec![("a", "clip"), ("b", "plain")]),
        ("S: A;\nA: B^ | 'c';\nB: 'b';", vec!["b", "c"], vec![("b", "clip"), ("c", "plain")]),
        ("S: 'a'^ 'b'^;", vec!["a", "b"], vec![("a", "clip"), ("b", "clip")]),
        // left recursion (LALR only; rejected for LL)
        ("S: L;\nL: L 'a' | 'b';", vec!["a", "b"], vec![]),
        ("S: L;\nL: L ',' I | I;\nI: 'a' | 'b';", vec!["a", "b", ","], vec![]),
    ];
    for lalr in [false, true] {
        let gt = if lalr { "%grammar_type 'LALR(1)'\n" } else { "" };
        for (bi, (body, toks, roles)) in bodies.iter().enumerate() {
            if lalr && body.contains("S: 'a' S 'b'") {
                // fine for LALR too
            }
            let opts: Vec<usize> = if tier == Tier::Thorough { (0..8).collect() } else { vec![(bi + lalr as usize) % 8, 0] };
            for o in opts {
                v.push(mk(format!("%start S\n{gt}%%\n{body}\n"), toks, roles, o));
            }
            // with a %t_type
            if bi % 3 == 0 {
                v.push(mk(format!("%start S\n{gt}%t_type crate::ut::T\n%%\n{body}\n"), toks, &[], 0));
            }
        }
        // terminals whose texts are meta characters of the generated Rust source
        for t in ["'*/'", "'/*'", "'//'", "'\"'", "'\"#'", "'\\\\'", "'{'", "'}'", "'r#\"'", "'\\''", "'${'", "'\\n'"] {
            v.push(mk(format!("%start S\n{gt}%%\nS: 'a' {t} | {t} 'b';\n"), &[], &[], 0));
        }
        // comments and scanner states
        v.push(mk(format!("%start S\n{gt}%line_comment '//'\n%block_comment '/*' '*/'\n%on Q %enter X\n%scanner X {{ %auto_ws_off %on Q %enter INITIAL }}\n%%\nS: {{ A }};\nA: 'a' | Q C Q;\nQ: <INITIAL, X>'q';\nC: <X>/[^q]+/;\n"), &[], &[], 0));
        // names the generated code itself uses
        for n in ["Vec", "Option", "Result", "Box", "Token", "String", "type", "fn", "match", "AB", "A_b", "Plus", "EndOfInput", "SList", "Error", "Ok", "Some", "None", "Default", "Debug"] {
            if tier == Tier::Quick && lalr && n.len() % 2 == 0 {
                continue;
            }
            v.push(mk(format!("%start S\n{gt}%%\nS: {n} [ {n} ] {{ {n} }} 'z';\n{n}: 'x';\n"), &[], &[], 0));
            v.push(mk(format!("%start {n}\n{gt}%%\n{n}: 'x' [ {n} ];\n"), &[], &[], 0));
        }
        for m in ["type", "m", "M", "a_b", "aB", "fn", "r#type", "Self"] {
            v.push(mk(format!("%start S\n{gt}%%\nS: 'a'@{m} A@{m}2 'b';\nA: 'c';\n"), &[], &[], 0));
        }
    }
    // a slice of the enumerated spaces
    let mut grams = crate::props::ll::ll_grammars(Tier::Quick);
    grams.extend(crate::props::lr::lr_grammars(Tier::Quick));
    grams.retain(|g| !g.is_bnf() || (if g.lalr { crate::gram::Bnf::of(g).well_formed_lr() } else { crate::gram::Bnf::of(g).well_formed_ll() }));
    let step = tier.pick(300, 25);
    for (i, g) in grams.iter().enumerate() {
        if i % step == 0 {
            let toks: Vec<&str> = g.term_text.iter().map(|s| s.as_str()).collect();
            v.push(mk(g.to_par(), &toks, &[], i % 8));
        }
    }
    v
}

fn inputs_for(tokens: &[String], n: usize) -> Vec<String> {
    let mut res = vec![String::new()];
    let mut layer = vec![String::new()];
    for _ in 0..n {
        let mut nx = vec![];
        for w in &layer {
            for t in tokens {
                nx.push(if w.is_empty() { t.clone() } else { format!("{w} {t}") });
            }
        }
        res.extend(nx.iter().cloned());
        layer = nx;
    }
    res
}

/// texts of the tokens in a Debug rendering, in order
fn debug_token_texts(s: &str) -> Vec<String> {
    let mut out = vec![];
    let mut rest = s;
    while let Some(p) = rest.find("text: \"") {
        let r = &rest[p + 7..];
        let mut t = String::new();
        let mut chars = r.chars();
        while let Some(c) = chars.next() {
            if c == '\\' {
                if let Some(n) = chars.next() {
                    t.push(n);
                }
            } else if c == '"' {
                break;
            } else {
                t.push(c);
            }
        }
        out.push(t);
        rest = &rest[p + 7..];
    }
    out
}

pub fn run(id: &str, tier: Tier, replay: Option<&str>) -> i32 {
    let c22 = id == "C22";
    let cs: Vec<FarmCase> = if let Some(p) = replay {
        let v = read_replay(p);
        vec![serde_json::from_value(v["farm"].clone()).expect("bad replay")]
    } else {
        cases(tier)
    };
    let ctx = Ctx::new(id, tier);
    let acc = Acc::default();
    acc.count("grammars", cs.len() as u64);
    // generate all modules (parallel), then compile in batches
    let modules: Vec<(usize, Result<Module, String>)> = cs.par_iter().enumerate().map(|(i, c)| (i, catch(|| make_module(c, i)).unwrap_or_else(|p| Err(format!("PANIC:{p}"))))).collect();
    let mut ok_modules: Vec<(usize, Module)> = vec![];
    for (i, m) in modules {
        match m {
            Ok(m) => ok_modules.push((i, m)),
            Err(e) => {
                if e.starts_with("SYNTAX:") || e.starts_with("NOSTART:") {
                    if c22 {
                        acc.violation(Violation {
                            class: cause_class("generated_source_not_parseable", &cs[i].par),
                            what: format!("{}: {e}", cs[i].par.replace('\n', " ")),
                            case: json!({"farm": cs[i]}),
                            detail: json!({}),
                        });
                    }
                } else {
                    acc.outcome(&format!("rejected: {}", e.chars().take(40).collect::<String>()));
                }
            }
        }
    }
    acc.count("modules_generated", ok_modules.len() as u64);
    let batch_size = tier.pick(200, 250);
    let mut batch_no = 0;
    let mut compiled_total = 0u64;
    while !ok_modules.is_empty() {
        let take = ok_modules.len().min(batch_size);
        let chunk: Vec<(usize, Module)> = ok_modules.drain(..take).collect();
        batch_no += 1;
        let b = match write_batch(&format!("{id}-b{batch_no}"), chunk) {
            Ok(b) => b,
            Err(e) => {
                eprintln!("MACHINERY: cannot write farm batch: {e}");
                return 2;
            }
        };
        let mut excluded: Vec<usize> = vec![];
        for _round in 0..6 {
            acc.count("rustc_batch_builds", 1);
            match build(&b) {
                Ok(()) => break,
                Err(per) => {
                    if per.iter().any(|x| x.0 == usize::MAX) {
                        eprintln!("MACHINERY: farm build failed outside of generated modules: {:?}", per);
                        return 2;
                    }
                    for (i, msg) in per {
                        let case = &b.modules.iter().find(|m| m.0 == i).unwrap().1.case;
                        if c22 {
                            acc.violation(Violation {
                                class: cause_class("generated_code_does_not_compile", &case.par),
                                what: format!("{} [min_boxed={} range={} trim={}]: rustc: {msg}", case.par.replace('\n', " "), case.min_boxed, case.range, case.trim),
                                case: json!({"farm": case}),
                                detail: json!({"rustc": msg}),
                            });
                        }
                        acc.outcome("does_not_compile");
                        if c22 {
                            acc.eval(1);
                        }
                        excluded.push(i);
                    }
                    let _ = write_main(&b, &excluded);
                }
            }
        }
        let good: Vec<&(usize, Module)> = b.modules.iter().filter(|m| !excluded.contains(&m.0)).collect();
        compiled_total += good.len() as u64;
        for (i, m) in &good {
            acc.outcome("compiles");
            if c22 {
                acc.eval(1);
            }
            acc.distinct(&(m.case.par.clone(), m.case.min_boxed, m.case.range, m.case.trim));
            if !c22 && !m.case.tokens.is_empty() {
                c23_module(&format!("{id}-b{batch_no}"), *i, m, &acc);
            }
        }
        let _ = std::fs::remove_dir_all(&b.dir);
        if ctx.expired() {
            acc.count("modules_not_compiled_because_of_cap", ok_modules.len() as u64);
            break;
        }
    }
    acc.count("modules_compiled", compiled_total);
    acc.sample(json!({"grammar": cs[0].par, "options": {"min_boxed": cs[0].min_boxed, "range": cs[0].range, "trim": cs[0].trim}}));
    let rule = if c22 {
        "grammars generated with the real Builder (parser, trait/AST, adapter) and compiled by rustc as modules of one crate per batch: 9 EBNF bodies with clipping, member names, user types on terminals, nested optionals/repetitions, recursion x LL/LALR x generator options (minimize_boxed_types, range, trim; thorough: all 8 combinations), %t_type, terminals whose texts are meta characters of the generated Rust source (*/ /* // \" \"# \\ { } r#\" ' ${ newline), comments and scanner states, non-terminal and member names that the generated code itself uses or that are keywords, and a slice of the enumerated grammar spaces. Oracle: cargo build succeeds; on failure the offending modules are identified from rustc's messages, reported, excluded, and the batch is rebuilt.".to_string()
    } else {
        "the modules of C22 that come with an input alphabet, compiled by rustc; for every token string of length <= 4 the compiled parser runs with a user action on the start symbol that records `{:?}` of its argument. Oracle: on accepted inputs the start action is called exactly once; the token texts in the Debug tree, in order, are the non-clipped tokens of the input; terminals that sit in exactly one optional / repetition appear as often as in the input; verdict and action count equal those of the in-process binding of the same generated source (conformance of DESIGN.md section 3.2).".to_string()
    };
    finish(
        &ctx,
        &acc,
        Finish {
            level: "exploration",
            rule,
            exhaustive_note: "all listed grammars (the bound of this property is set by compile time) unless capped=true".into(),
            assumptions: vec!["user types are limited to terminals (crate::ut::T implements TryFrom<&Token>); non-terminal user types need hand-written conversions per generated type and are out of scope".into()],
            extra: json!({}),
        },
    )
}

fn cause_class(base: &str, par: &str) -> String {
    let nts: Vec<String> = par.lines().filter_map(|l| l.split(':').next().filter(|_| l.contains(':') && !l.starts_with('%')).map(|n| n.trim().to_string())).collect();
    for n in ["Self", "self", "Vec", "Option", "Result", "Box", "Token", "String", "Ok", "Some", "None", "Default", "Debug", "Error"] {
        if nts.iter().any(|x| x == n) {
            return format!("{base}(non_terminal_named_{n})");
        }
    }
    if par.contains("@Self") {
        return format!("{base}(member_named_Self)");
    }
    for t in ["'*/'", "'/*'", "'\"#'", "'r#\"'"] {
        if par.contains(t) {
            return format!("{base}(terminal_{})", t.trim_matches('\''));
        }
    }
    base.to_string()
}

fn c23_module(batch_name: &str, idx: usize, m: &Module, acc: &Acc) {
    let case = &m.case;
    let inputs = inputs_for(&case.tokens, 4);
    let short = case.par.replace('\n', " ");
    let mkv = |class: &str, what: String| Violation { class: class.into(), what, case: json!({"farm": case}), detail: json!({}) };
    let res = match run_module(batch_name, idx, &inputs) {
        Ok(r) => r,
        Err(e) => {
            acc.violation(mkv("compiled_parser_crashes", format!("{short}: {e}")));
            return;
        }
    };
    // in-process binding of the same grammar
    let cfg = GenCfg { min_boxed: case.min_boxed, range: case.range, trim: case.trim, ..Default::default() };
    let bound = catch(|| generate_and_bind(&case.par, 3, &cfg)).ok().and_then(|x| x.ok());
    let clipped: Vec<&String> = case.roles.iter().filter(|r| r.1 == "clip").map(|r| &r.0).collect();
    let start = case.par.lines().find_map(|l| l.strip_prefix("%start ")).unwrap_or("S").trim().to_string();
    let recursive_start = case.par.split("%%").nth(1).map(|body| {
        body.split(';').any(|prod| {
            let mut parts = prod.splitn(2, ':');
            let _lhs = parts.next();
            parts.next().is_some_and(|rhs| rhs.split(|c: char| !(c.is_alphanumeric() || c == '_')).any(|w| w == start))
        })
    }).unwrap_or(false);
    let mut accepted = 0;
    for (input, (ok, calls, out)) in inputs.iter().zip(res.iter()) {
        acc.eval(1);
        if let Some((_, b)) = &bound {
            if let Ok(o) = catch(|| b.parse(input, &RunOpts::default())) {
                if o.ok != *ok {
                    acc.violation(mkv("compiled_parser_and_in_process_binding_disagree", format!("{short} input {input:?}: compiled ok={ok}, in-process ok={}", o.ok)));
                    return;
                }
            }
        }
        if !*ok {
            continue;
        }
        accepted += 1;
        // a start symbol that is used recursively has its action called once per occurrence; only
        // then more than one call is legitimate (the last call carries the whole AST)
        if *calls != 1 && !(recursive_start && *calls > 1) {
            acc.violation(mkv("start_action_not_called_exactly_once", format!("{short} input {input:?}: start symbol action called {calls} times")));
            return;
        }
        let out: &Vec<String> = &vec![out.last().cloned().unwrap_or_default()];
        if case.par.contains("crate::ut::T") {
            continue;
        }
        let toks: Vec<String> = input.split(' ').filter(|s| !s.is_empty()).map(|s| s.to_string()).collect();
        let want: Vec<String> = toks.iter().filter(|t| !clipped.contains(t)).cloned().collect();
        let got = debug_token_texts(&out[0]);
        if !case.roles.is_empty() && got != want {
            acc.violation(mkv("ast_tokens_differ_from_input", format!("{short} input {input:?}: AST contains the tokens {got:?}, the non-clipped input tokens are {want:?}; AST: {}", out[0].chars().take(300).collect::<String>())));
            return;
        }
        if case.roles.is_empty() && !case.par.contains('^') && got != toks {
            let class = if got.len() != toks.len() { "ast_token_count_differs_from_input" } else { "ast_tokens_differ_from_input" };
            acc.violation(mkv(class, format!("{short} input {input:?}: AST contains the tokens {got:?}, the input tokens are {toks:?}; AST: {}", out[0].chars().take(300).collect::<String>())));
            return;
        }
        // optional parts: Some(..) count
        let n_opt_roles = case.roles.iter().filter(|r| r.1 == "opt").count();
        if n_opt_roles > 0 {
            let present = case.roles.iter().filter(|r| r.1 == "opt" && toks.contains(&r.0)).count();
            let somes = out[0].matches("Some(").count();
            if somes != present {
                acc.violation(mkv("optional_presence_differs_from_input", format!("{short} input {input:?}: AST has {somes} Some(..), the input uses {present} of the optional parts; AST: {}", out[0].chars().take(300).collect::<String>())));
                return;
            }
        }
    }
    if accepted > 0 {
        acc.count("accepted_inputs_checked", accepted);
    }
}

#[allow(dead_code)]
fn unused(_: &Value) {}
