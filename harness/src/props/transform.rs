//! C09 (canonicalization), C10 (left factoring), C11 (well-formedness checks), C12 (LR
//! augmentation): enumeration against L<=n and closures from the definitions.

use rayon::prelude::*;
use serde_json::json;
use std::collections::BTreeSet;

use parol::parser::parol_grammar::GrammarType;
use parol::{check_and_transform_grammar, left_factor, obtain_grammar_config_from_string};

use crate::common::*;
use crate::gram::*;

#[derive(serde::Serialize, serde::Deserialize, Clone, Debug)]
pub struct Case {
    pub gram: Gram,
    pub n: usize,
}

fn vio(class: &str, what: String, case: &Case, detail: serde_json::Value) -> Violation {
    Violation { class: class.into(), what, case: json!({"case": case, "par": case.gram.to_par()}), detail }
}

/// Convert a parol Cfg into harness productions over the harness terminal numbering (by text).
/// Returns (non-terminal names, prods, start index).
pub fn cfg_to_prods(cfg: &parol::Cfg, g: &Gram) -> Result<(Vec<String>, Vec<(u8, Alts)>, usize), String> {
    let mut nts: Vec<String> = vec![];
    let mut idx = |n: &str, nts: &mut Vec<String>| -> u8 {
        if let Some(p) = nts.iter().position(|x| x == n) {
            p as u8
        } else {
            nts.push(n.to_string());
            (nts.len() - 1) as u8
        }
    };
    idx(&cfg.st, &mut nts);
    let mut prods = vec![];
    for p in &cfg.pr {
        let l = idx(p.get_n_str(), &mut nts);
        let mut seq = vec![];
        for s in p.get_r() {
            match s {
                parol::Symbol::N(n, ..) => seq.push(Fac::N(idx(n, &mut nts))),
                parol::Symbol::T(parol::Terminal::Trm(t, ..)) => {
                    let ti = g.term_text.iter().position(|x| x == t).ok_or_else(|| format!("unknown terminal {t}"))?;
                    seq.push(Fac::T(ti as u8));
                }
                other => return Err(format!("unexpected symbol {other:?}")),
            }
        }
        prods.push((l, vec![seq]));
    }
    Ok((nts, prods, 0))
}

fn lang_of_cfg(cfg: &parol::Cfg, g: &Gram, n: usize) -> Result<(Vec<String>, Vec<Lang>), String> {
    let (nts, prods, _) = cfg_to_prods(cfg, g)?;
    if nts.len() > 250 {
        return Err("too many non-terminals".into());
    }
    let l = langs(nts.len(), &prods, n);
    Ok((nts, l))
}

fn diff_lang(a: &Lang, b: &Lang) -> String {
    let only_a: Vec<_> = a.difference(b).take(3).collect();
    let only_b: Vec<_> = b.difference(a).take(3).collect();
    format!("only in reference: {only_a:?}; only in parol's grammar: {only_b:?}")
}

const HELPER_NAMES: [&str; 10] = ["SList", "SOpt", "SGroup", "SSuffix", "SList0", "SOpt0", "SGroup0", "SSuffix0", "SList1", "SOpt1"];

fn ebnf_space(tier: Tier, lalr: bool) -> Vec<Gram> {
    let mut v = vec![];
    match tier {
        Tier::Quick => {
            v.extend(enum_ebnf(6, 3, 2, false, lalr));
            v.extend(enum_ebnf(5, 2, 3, false, lalr));
            v.extend(enum_ebnf(5, 2, 2, true, lalr));
        }
        Tier::Thorough => {
            v.extend(enum_ebnf(7, 3, 2, false, lalr));
            v.extend(enum_ebnf(6, 3, 3, false, lalr));
            v.extend(enum_ebnf(6, 2, 2, true, lalr));
        }
    }
    // name-collision variants: the second non-terminal is named like a helper parol would create
    let with_a: Vec<Gram> = v.iter().filter(|g| g.nts.len() == 2).cloned().collect();
    let step = tier.pick(7, 1);
    for (i, g) in with_a.iter().enumerate() {
        for (j, h) in HELPER_NAMES.iter().enumerate() {
            if (i + j) % step != 0 {
                continue;
            }
            let mut g2 = g.clone();
            g2.nts[1] = h.to_string();
            v.push(g2);
        }
    }
    v
}

// ---------------------------------------------------------------------------------------------
// C09
// ---------------------------------------------------------------------------------------------

fn eval_c09(case: &Case, acc: &Acc) -> Vec<Violation> {
    let mut out = vec![];
    let g = &case.gram;
    let par = g.to_par();
    let gc = match catch(|| obtain_grammar_config_from_string(&par, false)) {
        Err(p) => {
            out.push(vio("panic_in_canonicalization", format!("{}: {}", g.short(), panic_site(&p)), case, json!({})));
            return out;
        }
        Ok(Err(_)) => {
            acc.outcome("rejected");
            return out;
        }
        Ok(Ok(gc)) => gc,
    };
    acc.eval(1);
    let reference = g.langs(case.n);
    let (nts, ls) = match lang_of_cfg(&gc.cfg, g, case.n) {
        Ok(x) => x,
        Err(m) => {
            out.push(vio("canonical_grammar_not_bnf", format!("{}: {m}", g.short()), case, json!({})));
            return out;
        }
    };
    let helpers = nts.len() - nts.iter().filter(|n| g.nts.contains(n)).count();
    acc.outcome(&format!("helpers={helpers}"));
    if helpers > 0 {
        acc.distinct(g);
    }
    if gc.cfg.st != g.nts[0] {
        out.push(vio("start_symbol_changed", format!("{}: start symbol {}", g.short(), gc.cfg.st), case, json!({})));
    }
    for (ui, un) in g.nts.iter().enumerate() {
        let Some(pi) = nts.iter().position(|x| x == un) else {
            // a user non-terminal that is unused and got lost is not this property's business
            if !reference[ui].is_empty() && ui == 0 {
                out.push(vio("user_nonterminal_lost", format!("{}: {un} missing after canonicalization", g.short()), case, json!({})));
            }
            continue;
        };
        if ls[pi] != reference[ui] {
            let class = if ui == 0 { "language_changed" } else { "nonterminal_language_changed" };
            out.push(vio(
                class,
                format!("{}: L<={}({un}) differs after canonicalization: {}", g.short(), case.n, diff_lang(&reference[ui], &ls[pi])),
                case,
                json!({"nt": un, "canonical": parol_cfg_text(&gc.cfg)}),
            ));
        }
    }
    // helper names must be fresh: each lhs name that is not a user name must not equal a user name
    // (by construction) and every production of a user non-terminal must stem from the user's
    // productions: the number of productions of user non-terminals can only be explained if no
    // helper shares the name -> covered by the per-non-terminal language equality above.
    acc.fallback(|| json!({"grammar": g.short()}));
    if acc.want_sample() && helpers >= 2 {
        acc.sample(json!({"grammar": g.short(), "canonical": parol_cfg_text(&gc.cfg), "sentences<=n": reference[0].len()}));
    }
    out
}

pub fn parol_cfg_text(cfg: &parol::Cfg) -> String {
    cfg.pr.iter().map(|p| format!("{p}")).collect::<Vec<_>>().join(" ")
}

// ---------------------------------------------------------------------------------------------
// C10
// ---------------------------------------------------------------------------------------------

fn eval_c10(case: &Case, acc: &Acc) -> Vec<Violation> {
    let mut out = vec![];
    let g = &case.gram;
    let par = g.to_par();
    let Ok(Ok(gc)) = catch(|| obtain_grammar_config_from_string(&par, false)) else {
        acc.outcome("rejected");
        return out;
    };
    acc.eval(1);
    // left_factor under a watchdog thread
    let cfg0 = gc.cfg.clone();
    let (tx, rx) = std::sync::mpsc::channel();
    let cfg_for_thread = cfg0.clone();
    std::thread::spawn(move || {
        let r = catch(|| left_factor(&cfg_for_thread));
        let _ = tx.send(r);
    });
    let fact = match rx.recv_timeout(std::time::Duration::from_secs(20)) {
        Err(_) => {
            out.push(vio("left_factoring_does_not_terminate", format!("{}: left_factor still running after 20 s", g.short()), case, json!({})));
            return out;
        }
        Ok(Err(p)) => {
            out.push(vio("panic_in_left_factoring", format!("{}: {}", g.short(), panic_site(&p)), case, json!({})));
            return out;
        }
        Ok(Ok(c)) => c,
    };
    let (nts0, l0) = match lang_of_cfg(&cfg0, g, case.n) {
        Ok(x) => x,
        Err(_) => return out,
    };
    let (nts1, l1) = match lang_of_cfg(&fact, g, case.n) {
        Ok(x) => x,
        Err(m) => {
            out.push(vio("factored_grammar_broken", format!("{}: {m}", g.short()), case, json!({})));
            return out;
        }
    };
    let changed = fact.pr.len() != cfg0.pr.len();
    acc.outcome(&format!("factored={changed}"));
    if changed {
        acc.distinct(g);
    }
    for (i, n) in nts0.iter().enumerate() {
        match nts1.iter().position(|x| x == n) {
            None => out.push(vio("nonterminal_lost", format!("{}: {n} missing after left factoring", g.short()), case, json!({}))),
            Some(j) => {
                if l0[i] != l1[j] {
                    let class = if i == 0 { "language_changed" } else { "nonterminal_language_changed" };
                    out.push(vio(
                        class,
                        format!("{}: L<={}({n}) differs after left factoring: {}", g.short(), case.n, diff_lang(&l0[i], &l1[j])),
                        case,
                        json!({"nt": n, "before": parol_cfg_text(&cfg0), "after": parol_cfg_text(&fact)}),
                    ));
                }
            }
        }
    }
    // no two non-empty alternatives of one non-terminal start with the same symbol (parol's
    // own Symbol equality)
    for n in &nts1 {
        let alts: Vec<&parol::Pr> = fact.pr.iter().filter(|p| p.get_n_str() == n).collect();
        for (i, a) in alts.iter().enumerate() {
            for b in &alts[i + 1..] {
                if let (Some(x), Some(y)) = (a.get_r().first(), b.get_r().first()) {
                    if x == y {
                        out.push(vio(
                            "shared_prefix_left",
                            format!("{}: after left factoring {n} still has two alternatives starting with {x}", g.short()),
                            case,
                            json!({"after": parol_cfg_text(&fact)}),
                        ));
                    }
                }
            }
        }
    }
    // new names are fresh: every name of the result that is not in the input is new, and the
    // productions of input names keep their language (checked above). Additionally a new name must
    // not have been a name of the input grammar:
    let new_names: Vec<&String> = nts1.iter().filter(|n| !nts0.contains(n)).collect();
    let dup: BTreeSet<&String> = new_names.iter().filter(|n| g.nts.contains(n)).copied().collect();
    if !dup.is_empty() {
        out.push(vio("suffix_name_clash", format!("{}: new names {dup:?} clash", g.short()), case, json!({})));
    }
    acc.fallback(|| json!({"grammar": g.short()}));
    if acc.want_sample() && changed && nts1.len() >= 3 {
        acc.sample(json!({"grammar": g.short(), "before": parol_cfg_text(&cfg0), "after": parol_cfg_text(&fact)}));
    }
    out
}

pub fn prefix_group_grammars_pub(tier: Tier) -> Vec<Gram> {
    prefix_group_grammars(tier)
}

/// S with several groups of alternatives that share a first terminal (forces several factoring
/// passes on one non-terminal and suffix-name generation with numbered names)
fn prefix_group_grammars(tier: Tier) -> Vec<Gram> {
    // terminals: a b c = group prefixes, d e = suffix terminals, f = body of the second nt
    let menu: Vec<Seq> = vec![vec![], vec![Fac::T(3)], vec![Fac::T(4)], vec![Fac::N(1)], vec![Fac::T(3), Fac::T(4)], vec![Fac::T(3), Fac::N(1)]];
    let mut member_sets: Vec<Vec<Seq>> = vec![];
    for i in 0..menu.len() {
        for j in i + 1..menu.len() {
            member_sets.push(vec![menu[i].clone(), menu[j].clone()]);
            if tier == Tier::Thorough {
                for l in j + 1..menu.len() {
                    member_sets.push(vec![menu[i].clone(), menu[j].clone(), menu[l].clone()]);
                }
            }
        }
    }
    let mut out = vec![];
    let names = ["A", "SSuffix", "SSuffix0", "SSuffix1"];
    for g in 2..=3usize {
        let mut idx = vec![0usize; g];
        loop {
            // build
            let mut alts: Alts = vec![];
            for (gi, mi) in idx.iter().enumerate() {
                for m in &member_sets[*mi] {
                    let mut s = vec![Fac::T(gi as u8)];
                    s.extend(m.iter().cloned());
                    alts.push(s);
                }
            }
            let uses_a = alts.iter().any(|s| s.contains(&Fac::N(1)));
            // quick tier: a residue class of the 3-group product
            let key: usize = idx.iter().enumerate().map(|(i, x)| (i + 1) * x).sum();
            if !(tier == Tier::Quick && g == 3 && key % 5 != 0) {
                for (ni, name) in names.iter().enumerate() {
                    if !uses_a && ni > 0 && tier == Tier::Quick {
                        // the second non-terminal must exist (name clash) but need not be used;
                        // unreachable non-terminals are fine for the public left_factor
                    }
                    let mut gr = Gram::simple(2, 6, vec![(0, alts.clone()), (1, vec![vec![Fac::T(5)]])], false);
                    gr.nts[1] = name.to_string();
                    if !uses_a {
                        // keep the second non-terminal reachable through an extra alternative
                        gr.prods[0].1.push(vec![Fac::T(6), Fac::N(1)]);
                        gr.terms.push("'g'".into());
                        gr.term_text.push("g".into());
                    }
                    out.push(gr);
                }
            }
            // next
            let mut i = 0;
            loop {
                idx[i] += 1;
                if idx[i] < member_sets.len() {
                    break;
                }
                idx[i] = 0;
                i += 1;
                if i == g {
                    break;
                }
            }
            if i == g {
                break;
            }
        }
    }
    out
}

// ---------------------------------------------------------------------------------------------
// C11
// ---------------------------------------------------------------------------------------------

fn names(g: &Gram, v: &[bool], want: bool) -> BTreeSet<String> {
    g.nts.iter().zip(v.iter()).filter(|(_, b)| **b == want).map(|(n, _)| n.clone()).collect()
}

fn eval_c11(case: &Case, acc: &Acc) -> Vec<Violation> {
    let mut out = vec![];
    let g = &case.gram;
    let par = g.to_par();
    let Ok(Ok(gc)) = catch(|| obtain_grammar_config_from_string(&par, false)) else {
        acc.outcome("rejected_by_parser");
        return out;
    };
    let cfg = &gc.cfg;
    let b = Bnf::of(g);
    acc.eval(1);
    let r_null = names(g, &b.nullable(), true);
    let r_nonprod = names(g, &b.productive(), false);
    let r_unreach = names(g, &b.reachable(), false);
    let r_reach = names(g, &b.reachable(), true);
    let r_lrec = names(g, &b.left_recursive(), true);
    let cmp = |what: &str, parol: BTreeSet<String>, reference: &BTreeSet<String>, out: &mut Vec<Violation>| {
        if parol != *reference {
            out.push(vio(
                &format!("{what}_set_wrong"),
                format!("{}: {what} non-terminals: parol {parol:?}, by definition {reference:?}", g.short()),
                case,
                json!({"parol": parol, "reference": reference}),
            ));
        }
    };
    match catch(|| cfg.calculate_nullable_non_terminals()) {
        Ok(s) => cmp("nullable", s, &r_null, &mut out),
        Err(p) => out.push(vio("panic", format!("{}: nullable: {}", g.short(), panic_site(&p)), case, json!({}))),
    }
    match catch(|| parol::analysis::non_productive_non_terminals(cfg)) {
        Ok(s) => cmp("non_productive", s.into_iter().collect(), &r_nonprod, &mut out),
        Err(p) => out.push(vio("panic", format!("{}: productivity: {}", g.short(), panic_site(&p)), case, json!({}))),
    }
    match catch(|| parol::analysis::reachability::unreachable_non_terminals(cfg)) {
        Ok(s) => cmp("unreachable", s, &r_unreach, &mut out),
        Err(p) => out.push(vio("panic", format!("{}: reachability: {}", g.short(), panic_site(&p)), case, json!({}))),
    }
    match catch(|| parol::analysis::reachability::reachable_non_terminals(cfg)) {
        Ok(s) => cmp("reachable", s, &r_reach, &mut out),
        Err(p) => out.push(vio("panic", format!("{}: reachability: {}", g.short(), panic_site(&p)), case, json!({}))),
    }
    match catch(|| parol::detect_left_recursive_non_terminals(cfg)) {
        Ok(s) => cmp("left_recursive", s.into_iter().collect(), &r_lrec, &mut out),
        Err(p) => out.push(vio("panic", format!("{}: left recursion: {}", g.short(), panic_site(&p)), case, json!({}))),
    }
    // the combined check
    for (gt, ll) in [(GrammarType::LLK, true), (GrammarType::LALR1, false)] {
        let expect: (&str, BTreeSet<String>) = if !r_nonprod.is_empty() {
            ("NonProductiveNonTerminals", r_nonprod.clone())
        } else if !r_unreach.is_empty() {
            ("UnreachableNonTerminals", r_unreach.clone())
        } else if ll && !r_lrec.is_empty() {
            ("LeftRecursion", r_lrec.clone())
        } else {
            ("Ok", BTreeSet::new())
        };
        let r = match catch(|| check_and_transform_grammar(cfg, gt)) {
            Ok(r) => r,
            Err(p) => {
                // LALR augmentation etc. panics are C26's business unless they come from the checks
                out.push(vio("panic_in_check", format!("{} ll={ll}: {}", g.short(), panic_site(&p)), case, json!({})));
                continue;
            }
        };
        let got: (String, BTreeSet<String>) = match &r {
            Ok(_) => ("Ok".to_string(), BTreeSet::new()),
            Err(e) => classify_analysis_error(e),
        };
        acc.outcome(&format!("ll={ll} {}", got.0));
        if got.0 != expect.0 || got.1 != expect.1 {
            out.push(vio(
                "check_result_wrong",
                format!("{} ll={ll}: check_and_transform_grammar gives {} {:?}, expected {} {:?}", g.short(), got.0, got.1, expect.0, expect.1),
                case,
                json!({"got": got.0, "got_names": got.1, "expected": expect.0, "expected_names": expect.1}),
            ));
        }
    }
    if !(r_nonprod.is_empty() && r_unreach.is_empty() && r_lrec.is_empty() && r_null.is_empty()) {
        acc.distinct(g);
    }
    acc.fallback(|| json!({"grammar": g.short()}));
    if acc.want_sample() && !r_lrec.is_empty() && !r_null.is_empty() && r_nonprod.is_empty() {
        acc.sample(json!({"grammar": g.short(), "nullable": r_null, "non_productive": r_nonprod, "unreachable": r_unreach, "left_recursive": r_lrec}));
    }
    out
}

fn classify_analysis_error(e: &parol_runtime::ParolError) -> (String, BTreeSet<String>) {
    use parol::GrammarAnalysisError as G;
    if let parol_runtime::ParolError::UserError(u) = e {
        if let Some(g) = u.downcast_ref::<G>() {
            return match g {
                G::NonProductiveNonTerminals { non_terminals } => {
                    ("NonProductiveNonTerminals".into(), non_terminals.iter().map(|h| h.hint.clone()).collect())
                }
                G::UnreachableNonTerminals { non_terminals } => {
                    ("UnreachableNonTerminals".into(), non_terminals.iter().map(|h| h.hint.clone()).collect())
                }
                G::LeftRecursion { recursions } => ("LeftRecursion".into(), recursions.iter().map(|r| r.name.clone()).collect()),
                other => (format!("{other:?}").chars().take(30).collect(), BTreeSet::new()),
            };
        }
    }
    (format!("other:{}", crate::bind::fmt_err(e)), BTreeSet::new())
}

/// Grammars with 4 (5) non-terminals whose shape is all that matters for the closures: every
/// non-terminal has one main alternative `X` or `X t` and optionally `t` and/or the empty one.
fn chain_grammars(tier: Tier) -> Vec<Gram> {
    let mut out = vec![];
    let sizes: &[usize] = tier.pick(&[4], &[4, 5]);
    for &n in sizes {
        // options per non-terminal
        let mut opts: Vec<Alts> = vec![];
        for x in 0..=n {
            let first = if x == n { Fac::T(0) } else { Fac::N(x as u8) };
            for suffix in [false, true] {
                let mut main = vec![first.clone()];
                if suffix {
                    main.push(Fac::T(0));
                }
                let extras: &[(bool, bool)] = if n == 4 && tier == Tier::Thorough { &[(false, false), (true, false), (false, true), (true, true)] } else { &[(false, false), (true, false)] };
                for (with_t, with_eps) in extras {
                    let mut a = vec![main.clone()];
                    if *with_t && main != vec![Fac::T(0)] {
                        a.push(vec![Fac::T(0)]);
                    }
                    if *with_eps {
                        a.push(vec![]);
                    }
                    opts.push(a);
                }
            }
        }
        opts.dedup();
        if n == 5 {
            // keep the 5-non-terminal family small: main alternative only, plus `t` for the last
            opts.retain(|a| a.len() == 1);
        }
        let total = opts.len().pow(n as u32);
        for code in 0..total {
            let mut c = code;
            let mut prods = vec![];
            for i in 0..n {
                let mut a = opts[c % opts.len()].clone();
                c /= opts.len();
                if n == 5 && i == n - 1 {
                    a.push(vec![Fac::T(0)]);
                }
                prods.push((i as u8, a));
            }
            for scheme in 0..2 {
                let mut g = Gram::simple(1, 1, prods.clone(), false);
                g.nts = if scheme == 0 {
                    ["S", "A", "B", "C", "D"][..n].iter().map(|s| s.to_string()).collect()
                } else {
                    ["A", "B", "C", "D", "Z"][5 - n..].iter().map(|s| s.to_string()).collect::<Vec<_>>().into_iter().enumerate().map(|(i, s)| if i == 0 { "A0".to_string() } else { s }).collect()
                };
                out.push(g);
            }
        }
    }
    out
}

// ---------------------------------------------------------------------------------------------
// C12
// ---------------------------------------------------------------------------------------------

fn eval_c12(case: &Case, acc: &Acc) -> Vec<Violation> {
    let mut out = vec![];
    let g = &case.gram;
    let par = g.to_par();
    let Ok(Ok(gc)) = catch(|| obtain_grammar_config_from_string(&par, false)) else {
        acc.outcome("rejected_by_parser");
        return out;
    };
    acc.eval(1);
    let t = match catch(|| check_and_transform_grammar(&gc.cfg, GrammarType::LALR1)) {
        Err(p) => {
            out.push(vio("panic_in_augmentation", format!("{}: {}", g.short(), panic_site(&p)), case, json!({})));
            return out;
        }
        Ok(Err(_)) => {
            acc.outcome("rejected");
            return out;
        }
        Ok(Ok(t)) => t,
    };
    let st = t.st.clone();
    let n_start = t.pr.iter().filter(|p| p.get_n_str() == st).count();
    let on_rhs = t.pr.iter().any(|p| p.get_r().iter().any(|s| matches!(s, parol::Symbol::N(n, ..) if *n == st)));
    let recursive_start = gc.cfg.pr.iter().any(|p| p.get_r().iter().any(|s| matches!(s, parol::Symbol::N(n, ..) if *n == gc.cfg.st)));
    let multi = gc.cfg.pr.iter().filter(|p| p.get_n_str() == gc.cfg.st).count() > 1;
    acc.outcome(&format!("start_recursive={recursive_start} start_multi={multi} augmented={}", st != gc.cfg.st));
    if recursive_start || multi {
        acc.distinct(g);
    }
    if n_start != 1 {
        out.push(vio(
            "start_symbol_has_several_productions",
            format!("{}: start symbol {st} of the LR grammar has {n_start} productions", g.short()),
            case,
            json!({"after": parol_cfg_text(&t)}),
        ));
    }
    if on_rhs {
        let class = if !multi { "start_symbol_on_rhs_single_production_start" } else { "start_symbol_on_rhs" };
        out.push(vio(
            class,
            format!("{}: start symbol {st} of the LR grammar occurs on a right-hand side", g.short()),
            case,
            json!({"after": parol_cfg_text(&t)}),
        ));
    }
    let reference = g.lang(case.n);
    match lang_of_cfg(&t, g, case.n) {
        Ok((_, l)) => {
            if l[0] != reference {
                out.push(vio("language_changed", format!("{}: {}", g.short(), diff_lang(&reference, &l[0])), case, json!({"after": parol_cfg_text(&t)})));
            }
        }
        Err(m) => out.push(vio("augmented_grammar_broken", format!("{}: {m}", g.short()), case, json!({}))),
    }
    acc.fallback(|| json!({"grammar": g.short()}));
    if acc.want_sample() && st != gc.cfg.st && recursive_start {
        acc.sample(json!({"grammar": g.short(), "augmented": parol_cfg_text(&t)}));
    }
    out
}

pub fn run(id: &str, tier: Tier, replay: Option<&str>) -> i32 {
    let eval: fn(&Case, &Acc) -> Vec<Violation> = match id {
        "C09" => eval_c09,
        "C10" => eval_c10,
        "C11" => eval_c11,
        _ => eval_c12,
    };
    if let Some(p) = replay {
        let v = read_replay(p);
        let case: Case = serde_json::from_value(v["case"].clone()).expect("bad replay case");
        return replay_verdict(id, p, || eval(&case, &Acc::default()));
    }
    let ctx = Ctx::new(id, tier);
    let acc = Acc::default();
    let n = tier.pick(6, 8);
    let bsp = BnfSpace { max_nt: tier.pick(2, 3), max_t: tier.pick(2, 2), max_len: 3, max_alts: 3, max_size: tier.pick(8, 9) };
    let (grams, rule): (Vec<Gram>, String) = match id {
        "C09" => {
            let mut v = ebnf_space(tier, false);
            v.extend(ebnf_space(tier, true));
            (v, format!("every EBNF body of size <= {} (nesting depth <= 2..3, 1-3 alternatives, empty alternatives, optional second non-terminal from a menu, also named like parol's helper non-terminals {:?}), for both grammar types; oracle: L<={n} of every user non-terminal in the canonicalized Cfg equals L<={n} of the harness tree. Non-trivial = at least one helper non-terminal introduced.", tier.pick(6, 7), HELPER_NAMES))
        }
        "C10" => {
            let mut v = enum_bnf(&bsp, false);
            v.retain(|g| Bnf::of(g).well_formed_lr());
            // suffix-name collisions
            let two: Vec<Gram> = v.iter().filter(|g| g.nts.len() == 2).cloned().collect();
            for (i, g) in two.iter().enumerate() {
                if i % tier.pick(5, 1) == 0 {
                    for h in ["SSuffix", "SSuffix0", "SSuffix1"] {
                        let mut g2 = g.clone();
                        g2.nts[1] = h.to_string();
                        v.push(g2);
                    }
                }
            }
            v.extend(prefix_group_grammars(tier));
            v.extend(ebnf_space(tier, false));
            (v, format!("every productive and reachable canonical BNF grammar of {bsp:?} (left-recursive ones included; plus the prefix-group family: S with 2-3 groups of 2-3 alternatives sharing a first terminal, suffixes from a menu incl. the empty one and a second non-terminal named A / SSuffix / SSuffix0 / SSuffix1; also with the second non-terminal named SSuffix/SSuffix0/SSuffix1) and every canonicalized EBNF body of the C09 space; left_factor run under a 20 s watchdog; oracle: L<={n} of every original non-terminal unchanged, no two alternatives of one non-terminal start with an equal Symbol. Non-trivial = left factoring changed the grammar."))
        }
        "C11" => {
            let mut v = enum_bnf(&bsp, false);
            v.extend(chain_grammars(tier));
            (v, format!("every canonical BNF grammar of {bsp:?} including non-productive, unreachable and (hidden) left-recursive ones, plus the chain family: 4 non-terminals (thorough also 5), each with one main alternative `X` or `X t` (X any non-terminal or the terminal) and optionally the alternatives `t` and empty, under two naming schemes (start symbol alphabetically last / first); oracle: nullable / productive / reachable / left-recursive closures written from the definitions; check_and_transform_grammar must return the matching error kind with exactly the reference names (non-productive first, then unreachable, then - LL only - left recursion) and Ok otherwise. Non-trivial = at least one of the sets non-empty."))
        }
        _ => {
            let mut v = enum_bnf(&bsp, true);
            v.retain(|g| Bnf::of(g).well_formed_lr());
            // decorated occurrences of the start symbol (clipped, member name, user type)
            let rec: Vec<Gram> = v.iter().filter(|g| g.prods.iter().any(|(_, a)| a.iter().any(|s| s.contains(&Fac::N(0))))).cloned().collect();
            for (i, g) in rec.iter().enumerate() {
                for (j, d) in ["^", "@m", " : crate::T", "@m : crate::T"].iter().enumerate() {
                    if tier == Tier::Quick && (i + j) % 2 != 0 {
                        continue;
                    }
                    let mut g2 = g.clone();
                    g2.deco = vec![d.to_string()];
                    v.push(g2);
                }
            }
            v.extend(ebnf_space(tier, true));
            (v, format!("every productive and reachable canonical BNF grammar of {bsp:?} (those with a recursive start symbol also with every occurrence of it decorated by ^, @m, : type) and the C09 EBNF bodies with %grammar_type 'LALR(1)'; oracle on the result of check_and_transform_grammar(.., LALR1): same L<={n}, start symbol has exactly one production and occurs on no right-hand side. Non-trivial = start symbol recursive or with several productions."))
        }
    };
    acc.count("grammars_enumerated", grams.len() as u64);
    let cases: Vec<Case> = grams.into_iter().map(|g| Case { gram: g, n }).collect();
    cases.par_iter().for_each(|c| {
        if ctx.expired() {
            acc.count("cases_skipped_by_cap", 1);
            return;
        }
        for v in eval(c, &acc) {
            acc.violation(v);
        }
    });
    finish(
        &ctx,
        &acc,
        Finish {
            level: "exploration",
            rule,
            exhaustive_note: "all grammars of the stated space unless capped=true".into(),
            assumptions: vec![],
            extra: json!({}),
        },
    )
}
