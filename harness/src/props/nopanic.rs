//! C26: parol never panics on any grammar text.

use rayon::prelude::*;
use serde_json::json;

use crate::bind::{GenCfg, pipeline};
use crate::common::*;
use crate::gram::*;

fn site_class(p: &str) -> String {
    // "msg @ /path/to/file.rs:123" -> "panic@crate/file.rs:123"
    let loc = p.rsplit(" @ ").next().unwrap_or("");
    let short: Vec<&str> = loc.rsplit('/').take(3).collect();
    let short: Vec<&str> = short.into_iter().rev().collect();
    format!("panic@{}", short.join("/"))
}

/// run the whole pipeline for one text; returns the panic description if any stage panics
fn run_text(text: &str, ks: &[usize]) -> Option<String> {
    for k in ks {
        if let Err(p) = catch(|| pipeline(text, *k, &GenCfg::default())) {
            return Some(p);
        }
    }
    None
}

fn check(text: &str, ks: &[usize], family: &str, acc: &Acc) {
    acc.eval(1);
    if let Some(p) = run_text(text, ks) {
        let cyclic = p.contains("lalry") && crate::props::robust::is_cyclic_par_pub(text);
        let class = if cyclic { "lalry_panics_on_cyclic_grammar".to_string() } else { site_class(&p) };
        acc.outcome("panic");
        acc.violation(Violation {
            class,
            what: format!("[{family}] {:?}: {}", text.chars().take(200).collect::<String>(), panic_site(&p)),
            case: json!({"text": text, "ks": ks}),
            detail: json!({"family": family}),
        });
    }
}

fn seqs(n_alpha: usize, n: usize) -> Vec<Vec<usize>> {
    let mut res = vec![vec![]];
    let mut layer: Vec<Vec<usize>> = vec![vec![]];
    for _ in 0..n {
        let mut nx = vec![];
        for w in &layer {
            for a in 0..n_alpha {
                let mut z = w.clone();
                z.push(a);
                nx.push(z);
            }
        }
        res.extend(nx.iter().cloned());
        layer = nx;
    }
    res
}

pub const PAR_TOKENS_PUB: [&str; 43] = PAR_TOKENS;
pub fn seqs_pub(a: usize, n: usize) -> Vec<Vec<usize>> {
    seqs(a, n)
}
const PAR_TOKENS: [&str; 43] = [
    "%start", "%title", "%comment", "%user_type", "%nt_type", "%t_type", "%grammar_type", "%line_comment", "%block_comment", "%auto_newline_off", "%auto_ws_off",
    "%skip", "%on", "%allow_unmatched", "%enter", "%push", "%pop", "%scanner", "%%", ":", ";", "|", "(", ")", "[", "]", "{", "}", "<", ">", ",", "^", "@", "::", "=", "?=", "?!",
    "S", "A", "\"s\"", "'r'", "/x/", "'LALR(1)'",
];
const BODY_TOKENS: [&str; 28] = [
    "S", "A", "B", "'a'", "\"b\"", "/c/", "\"a\"", "/a/", "'b'", "/b/", "|", "(", ")", "[", "]", "{", "}", "^", "@m", ": T", ": x::Y", "<X>", "<INITIAL, X>", "?= 'b'", "?! /c/", "''", "/(/", "\"\\\"",
];
const DECLS: [&str; 30] = [
    "%title \"t\"",
    "%comment \"c\"",
    "%grammar_type 'LALR(1)'",
    "%grammar_type 'll(k)'",
    "%grammar_type 'foo'",
    "%user_type U = x::Y",
    "%user_type U = x::Z",
    "%nt_type A = x::Y",
    "%nt_type Undefined = x::Y",
    "%t_type x::Y",
    "%line_comment \"//\"",
    "%line_comment '('",
    "%block_comment \"/\\*\" \"\\*/\"",
    "%block_comment 'a' 'abcd'",
    "%block_comment '' ''",
    "%block_comment '(' '\\'",
    "%auto_newline_off",
    "%auto_ws_off",
    "%allow_unmatched",
    "%skip A",
    "%skip S",
    "%skip Undefined",
    "%on A %enter X",
    "%on A %push Undefined",
    "%on A %pop",
    "%on Undefined %enter X",
    "%scanner X { %auto_ws_off %on A %enter INITIAL }",
    "%scanner X { %skip A %on A %pop %allow_unmatched }",
    "%scanner X { }",
    "%scanner INITIAL { %auto_ws_off }",
];
const BODIES: [&str; 5] = [
    "S: A { A }; A: 'a';",
    "S: A B; A: <INITIAL, X>'a'; B: <X>'b';",
    "S: 'x' A; A: 'a' | ;",
    "S: S A | ; A: 'a';",
    "S: ;",
];

pub fn deep_text(kind: &str, m: usize) -> String {
    match kind {
        "groups" => format!("%start S\n%%\nS: {}'a'{};\n", "( ".repeat(m), " )".repeat(m)),
        "optionals" => format!("%start S\n%%\nS: {}'a'{};\n", "[ ".repeat(m), " ]".repeat(m)),
        "repetitions" => format!("%start S\n%%\nS: {}'a'{};\n", "{ ".repeat(m), " }".repeat(m)),
        "alternation" => format!("%start S\n%%\nS: {};\n", (0..m).map(|i| format!("'t{i}'")).collect::<Vec<_>>().join(" | ")),
        "sequence" => format!("%start S\n%%\nS: {};\n", (0..m).map(|i| format!("'t{}'", i % 7)).collect::<Vec<_>>().join(" ")),
        "productions" => {
            let mut s = String::from("%start N0\n%%\n");
            for i in 0..m {
                if i + 1 < m {
                    s.push_str(&format!("N{i}: 'a' N{};\n", i + 1));
                } else {
                    s.push_str(&format!("N{i}: 'b';\n"));
                }
            }
            s
        }
        _ => String::new(),
    }
}

/// entry of the worker subprocess: `verif C26-deep <kind> <m> <lalr>`
pub fn deep_worker(args: &[String]) -> i32 {
    let kind = &args[0];
    let m: usize = args[1].parse().unwrap();
    let mut text = deep_text(kind, m);
    if args.get(2).map(|s| s.as_str()) == Some("lalr") {
        text = text.replacen("%%", "%grammar_type 'LALR(1)'\n%%", 1);
    }
    match run_text(&text, &[1]) {
        None => 0,
        Some(p) => {
            eprintln!("PANIC {p}");
            3
        }
    }
}

pub fn run(tier: Tier, replay: Option<&str>) -> i32 {
    if let Some(p) = replay {
        let v = read_replay(p);
        if let Some(kind) = v.get("deep_kind").and_then(|k| k.as_str()) {
            let m = v["m"].as_u64().unwrap() as usize;
            let lalr = v["lalr"].as_bool().unwrap_or(false);
            return replay_verdict("C26", p, || deep_case(kind, m, lalr).into_iter().collect());
        }
        let text = v["text"].as_str().unwrap().to_string();
        let ks: Vec<usize> = serde_json::from_value(v["ks"].clone()).unwrap_or(vec![1, 2, 10]);
        return replay_verdict("C26", p, || {
            let acc = Acc::default();
            check(&text, &ks, "replay", &acc);
            let v = acc.violations.lock().unwrap().clone();
            v
        });
    }
    let ctx = Ctx::new("C26", tier);
    let acc = Acc::default();
    let ks = [1usize, 2, 10];
    // 1. token sequences of the PAR vocabulary
    let n_tok = tier.pick(3, 4);
    let s1 = seqs(PAR_TOKENS.len(), n_tok);
    acc.count("par_token_sequences", s1.len() as u64);
    s1.par_iter().for_each(|w| {
        if ctx.expired() {
            return;
        }
        let text: String = w.iter().map(|i| PAR_TOKENS[*i]).collect::<Vec<_>>().join(" ");
        check(&text, &[1], "PAR token sequence", &acc);
        // and after a valid prefix
        let text2 = format!("%start S {text}");
        check(&text2, &[1], "PAR token sequence after %start S", &acc);
    });
    // 2. production bodies
    let n_body = tier.pick(3, 4);
    let s2 = seqs(BODY_TOKENS.len(), n_body);
    acc.count("body_token_sequences", s2.len() as u64);
    s2.par_iter().for_each(|w| {
        if ctx.expired() {
            return;
        }
        let body: String = w.iter().map(|i| BODY_TOKENS[*i]).collect::<Vec<_>>().join(" ");
        for (hdr, tail) in [("", "A: 'a' | 'b' A; B: 'b';"), ("%grammar_type 'LALR(1)'\n%scanner X { %on A %enter INITIAL }\n", "A: <INITIAL, X>'a';")] {
            let text = format!("%start S\n{hdr}%%\nS: {body};\n{tail}\n");
            check(&text, &ks, "production body", &acc);
        }
    });
    // 3. declaration lists
    let n_decl = tier.pick(2, 3);
    let s3 = seqs(DECLS.len(), n_decl);
    acc.count("declaration_sequences", s3.len() as u64);
    s3.par_iter().for_each(|w| {
        if ctx.expired() {
            return;
        }
        let decls: String = w.iter().map(|i| DECLS[*i]).collect::<Vec<_>>().join("\n");
        for b in BODIES {
            let text = format!("%start S\n{decls}\n%%\n{b}\n");
            check(&text, &[1, 10], "declarations", &acc);
        }
    });
    // 4. every BNF grammar of the quick space, well-formed or not, both grammar types
    let sp = BnfSpace { max_nt: tier.pick(2, 3), max_t: 2, max_len: 3, max_alts: 3, max_size: tier.pick(7, 8) };
    for lalr in [false, true] {
        let gs = enum_bnf(&sp, lalr);
        acc.count("bnf_grammars", gs.len() as u64);
        gs.par_iter().for_each(|g| {
            if ctx.expired() {
                return;
            }
            check(&g.to_par(), &ks, "enumerated BNF", &acc);
        });
        let es = enum_ebnf(tier.pick(5, 6), 3, 2, false, lalr);
        acc.count("ebnf_grammars", es.len() as u64);
        es.par_iter().for_each(|g| {
            if ctx.expired() {
                return;
            }
            check(&g.to_par(), &[1, 10], "enumerated EBNF", &acc);
        });
    }
    // 4b. terminals with equal texts in different quoting styles, lookaheads, scanner states (the C18 space)
    let annot = crate::props::artifacts::annot_grammars(tier);
    acc.count("terminal_style_grammars", annot.len() as u64);
    annot.par_iter().for_each(|t| {
        if ctx.expired() {
            return;
        }
        check(t, &[1, 3], "terminal styles", &acc);
    });
    // 5. character level
    let chars = ["%", ":", ";", "'", "\"", "/", "\\", "S", " ", "é"];
    let n_ch = tier.pick(5, 6);
    let s5 = seqs(chars.len(), n_ch);
    acc.count("character_sequences", s5.len() as u64);
    s5.par_iter().for_each(|w| {
        if ctx.expired() {
            return;
        }
        let t: String = w.iter().map(|i| chars[*i]).collect();
        check(&t, &[1], "characters", &acc);
        check(&format!("%start S %% S: {t}"), &[1], "characters after a valid prefix", &acc);
    });
    // 6. deep nesting in worker subprocesses (8 MiB main-thread stack, as the CLI would run)
    // (nested repetitions/optionals take minutes at m = 1000 and hours beyond: their depth is
    // limited to 300 in the thorough tier; this is slowness, not a violation)
    let ms: &[usize] = tier.pick(&[10, 100], &[10, 100, 1000, 10000]);
    let mut jobs = vec![];
    for kind in ["groups", "optionals", "repetitions", "alternation", "sequence", "productions"] {
        for m in ms {
            let m = if (kind == "repetitions" || kind == "optionals") && *m > 300 { 300 } else { *m };
            for lalr in [false, true] {
                if !jobs.contains(&(kind, m, lalr)) {
                    jobs.push((kind, m, lalr));
                }
            }
        }
    }
    if tier == Tier::Thorough {
        // both sides of the capacity of the packed k-tuple representation (4 089 user terminals)
        for m in [4089usize, 4090] {
            for lalr in [false, true] {
                jobs.push(("alternation", m, lalr));
            }
        }
    }
    jobs.par_iter().for_each(|(kind, m, lalr)| {
        acc.eval(1);
        if let Some(v) = deep_case(kind, *m, *lalr) {
            acc.violation(v);
            acc.outcome("abnormal_exit_or_panic_in_deep_family");
        } else {
            acc.outcome(&format!("deep {kind} ok"));
        }
    });
    acc.outcome("no_panic");
    acc.distinct_n(acc.evaluations.load(std::sync::atomic::Ordering::Relaxed));
    acc.sample(json!({"family": "PAR token sequence", "example": format!("{} {} {}", PAR_TOKENS[0], PAR_TOKENS[37], PAR_TOKENS[18])}));
    acc.sample(json!({"family": "production body", "example": format!("S: {} {} {};", BODY_TOKENS[9], BODY_TOKENS[3], BODY_TOKENS[10])}));
    acc.sample(json!({"family": "declarations", "example": format!("{} / {}", DECLS[22], DECLS[26])}));
    finish(
        &ctx,
        &acc,
        Finish {
            level: "exploration",
            rule: format!("(1) every sequence of <= {n_tok} tokens of the PAR vocabulary ({} representatives, one per terminal of parol.par), bare and after `%start S`; (2) every production body of <= {n_body} items from {} body tokens (symbols, brackets, ^ @m :T, scanner-state prefixes, lookaheads, empty and broken literals) in an LL and an LALR frame, K in {{1,2,10}}; (3) every list of <= {n_decl} declarations from a menu of {} (valid, duplicate, undefined names, too long comment ends, unknown grammar type, scanner blocks) x 5 bodies; (4) every canonical BNF grammar of {sp:?} well-formed or not and every EBNF body of size <= {}, LL and LALR; (4b) the grammars of the C18 space (terminals with equal texts in different quoting styles, lookaheads, scanner states); (5) every character string of length <= {n_ch} over {{% : ; ' \" / \\ S blank e-acute}}, bare and after a valid prefix; (6) m-fold nesting / m-long alternation, sequence, production chain for m in {ms:?} (nested optionals/repetitions at most 300) in worker subprocesses with an 8 MiB stack. Oracle: every stage returns Ok or Err; a panic (debug assertions on) or an abnormal process exit is a violation.", PAR_TOKENS.len(), BODY_TOKENS.len(), DECLS.len(), tier.pick(5, 6)),
            exhaustive_note: "all listed families unless capped=true".into(),
            assumptions: vec!["the pipeline is driven through the public API the Builder/CLI use (parse, check_and_transform, analysis, lexer and parser source generation)".into()],
            extra: json!({}),
        },
    )
}

fn deep_case(kind: &str, m: usize, lalr: bool) -> Option<Violation> {
    let exe = std::env::current_exe().ok()?;
    let mut cmd = std::process::Command::new(exe);
    cmd.arg("C26-deep").arg(kind).arg(m.to_string());
    if lalr {
        cmd.arg("lalr");
    }
    let out = cmd.stdout(std::process::Stdio::null()).stderr(std::process::Stdio::piped()).output().ok()?;
    let case = json!({"deep_kind": kind, "m": m, "lalr": lalr});
    match out.status.code() {
        Some(0) => None,
        Some(3) => {
            let e = String::from_utf8_lossy(&out.stderr).to_string();
            let p = e.lines().find(|l| l.starts_with("PANIC")).unwrap_or("").to_string();
            let mut text = deep_text(kind, m);
            if lalr {
                text = text.replacen("%%", "%grammar_type 'LALR(1)'\n%%", 1);
            }
            let class = if p.contains("lalry") && crate::props::robust::is_cyclic_par_pub(&text) { "lalry_panics_on_cyclic_grammar".to_string() } else { site_class(&p) };
            Some(Violation { class, what: format!("[deep {kind} m={m} lalr={lalr}] {}", panic_site(&p)), case, detail: json!({}) })
        }
        other => {
            use std::os::unix::process::ExitStatusExt;
            let sig = out.status.signal();
            Some(Violation {
                class: format!("abnormal_exit_on_deep_{kind}(m={m})"),
                what: format!("[deep {kind} m={m} lalr={lalr}] worker exits with code {other:?} signal {sig:?} (stack overflow?)"),
                case,
                detail: json!({}),
            })
        }
    }
}
