//! C27 (formatter), C28 (rename), C30 (requests never crash), C34 (parser equivalence) through
//! the parol-ls hook protocol; C29 lives in lssched.rs.

use rayon::prelude::*;
use serde_json::{Value, json};

use crate::common::*;
use crate::ls::*;

const URI: &str = "file:///verif.par";

fn parol_syntax_error(text: &str) -> Result<bool, String> {
    catch(|| {
        let mut g = parol::ParolGrammar::new();
        match parol::parser::parol_parser::parse(text, "verif.par", &mut g) {
            Ok(_) => false,
            Err(parol_runtime::ParolError::UserError(_)) => false,
            Err(_) => true,
        }
    })
}

// ---------------------------------------------------------------------------------------------
// canonical form of a grammar with a name mapping (for C27/C28)
// ---------------------------------------------------------------------------------------------

pub struct NameMap<'a> {
    pub nt: &'a dyn Fn(&str) -> String,
    pub state: &'a dyn Fn(&str) -> String,
}

fn canon_symbol(s: &parol::Symbol, gc: &parol::GrammarConfig, m: &NameMap) -> String {
    let states = |st: &Vec<usize>| -> Vec<String> { st.iter().map(|i| gc.scanner_configurations.get(*i).map(|c| (m.state)(&c.scanner_name)).unwrap_or(format!("#{i}"))).collect() };
    match s {
        parol::Symbol::N(n, a, u, mem) => format!("N({}, clipped={}, type={:?}, member={:?})", (m.nt)(n), *a == parol::SymbolAttribute::Clipped, u.as_ref().map(|u| u.to_string()), mem),
        parol::Symbol::T(parol::Terminal::Trm(t, k, st, a, u, mem, l)) => format!(
            "T({t:?}, raw={}, states={:?}, clipped={}, type={:?}, member={:?}, la={:?})",
            matches!(k, parol::TerminalKind::Raw),
            states(st),
            *a == parol::SymbolAttribute::Clipped,
            u.as_ref().map(|u| u.to_string()),
            mem,
            l.as_ref().map(|l| (l.is_positive, l.pattern.clone(), matches!(l.kind, parol::TerminalKind::Raw)))
        ),
        other => format!("{other:?}"),
    }
}

pub fn canon(gc: &parol::GrammarConfig, m: &NameMap) -> Vec<(String, String)> {
    let mut v = vec![];
    v.push(("start symbol".to_string(), (m.nt)(&gc.cfg.st)));
    v.push(("grammar type".to_string(), format!("{:?}", gc.grammar_type)));
    for (i, p) in gc.cfg.pr.iter().enumerate() {
        v.push((format!("production {i}"), format!("{} : {}", canon_symbol(&p.0, gc, m), p.1.iter().map(|s| canon_symbol(s, gc, m)).collect::<Vec<_>>().join(" "))));
    }
    v.push(("title".into(), format!("{:?}", gc.title)));
    v.push(("comment".into(), format!("{:?}", gc.comment)));
    v.push(("user types".into(), format!("{:?}", gc.user_type_defs)));
    v.push(("nt types".into(), format!("{:?}", gc.nt_type_defs.iter().map(|(n, t)| ((m.nt)(n), t.clone())).collect::<Vec<_>>())));
    v.push(("t type".into(), format!("{:?}", gc.t_type_def)));
    for (i, sc) in gc.scanner_configurations.iter().enumerate() {
        v.push((format!("scanner state {i} name"), (m.state)(&sc.scanner_name)));
        v.push((format!("scanner state {i} comments"), format!("{:?} {:?}", sc.line_comments, sc.block_comments)));
        v.push((format!("scanner state {i} flags"), format!("nl={} ws={} unmatched={}", sc.auto_newline, sc.auto_ws, sc.allow_unmatched)));
        v.push((format!("scanner state {i} skip tokens"), format!("{:?}", sc.skip_tokens)));
        v.push((
            format!("scanner state {i} transitions"),
            format!(
                "{:?}",
                sc.transitions
                    .iter()
                    .map(|(t, s)| {
                        let txt = format!("{s}");
                        let mut parts = txt.splitn(2, ' ');
                        let kind = parts.next().unwrap_or("").to_string();
                        let target = parts.next().map(|n| (m.state)(n.trim())).unwrap_or_default();
                        (*t, kind, target)
                    })
                    .collect::<Vec<_>>()
            ),
        ));
    }
    v
}

fn ident(s: &str) -> String {
    s.to_string()
}

fn read_gc(text: &str) -> Result<parol::GrammarConfig, String> {
    match catch(|| parol::obtain_grammar_config_from_string(text, false)) {
        Ok(Ok(g)) => Ok(g),
        Ok(Err(e)) => Err(crate::bind::fmt_err(&e)),
        Err(p) => Err(format!("panic: {p}")),
    }
}

// ---------------------------------------------------------------------------------------------
// texts
// ---------------------------------------------------------------------------------------------

fn repo_inputs() -> Vec<(String, String)> {
    let dir = std::path::Path::new("/repo/crates/parol-ls/data/input");
    let mut v = vec![];
    if let Ok(rd) = std::fs::read_dir(dir) {
        for e in rd.flatten() {
            if let Ok(t) = std::fs::read_to_string(e.path()) {
                v.push((e.file_name().to_string_lossy().to_string(), t));
            }
        }
    }
    v.sort();
    v
}

fn small_texts() -> Vec<String> {
    vec![
        "%start S\n%%\nS: A { B } ;\nA: 'a' ;\nB: \"b\" | /c+/ ;\n".into(),
        "%start S\n%title \"T\"\n%comment \"C\"\n%line_comment '//'\n%block_comment '/*' '*/'\n%%\nS: [ A ] ( B | 'x'^ ) ;\nA: 'a'@m ;\nB: 'b' ?= 'c' ;\n".into(),
        "%start S\n%nt_type A = crate::m::A\n%user_type U = crate::m::U\n%%\nS: A : U B^ ;\nA: 'a' ;\nB: 'b' | ;\n".into(),
        "%start S\n%on Q %enter Str\n%skip W\n%scanner Str {\n  %auto_ws_off\n  %on Q %enter INITIAL\n}\n%%\nS: { X } ;\nX: Q C Q | W ;\nQ: <INITIAL, Str>'\"' ;\nC: <Str>/[^\"]+/ ;\nW: 'w' ;\n".into(),
        "%start S\n%grammar_type 'LALR(1)'\n%%\nS: S 'a' | 'b' ;\n".into(),
        "%start S\n%t_type crate::T\n%auto_newline_off\n%allow_unmatched\n%%\nS: 'a' 'b' 'c' 'd' 'e' 'f' 'g' 'h' 'i' 'j' 'k' 'l' 'm' 'n' 'o' | 'p' ;\n".into(),
    ]
}

// ---------------------------------------------------------------------------------------------
// C34
// ---------------------------------------------------------------------------------------------

fn eval_c34(text: &str, family: &str, acc: &Acc) {
    acc.eval(1);
    let p = match parol_syntax_error(text) {
        Ok(b) => b,
        Err(_) => {
            acc.outcome("parol panics (C26)");
            return;
        }
    };
    let r = with_ls(|ls| ls.call(json!({"cmd": "parse", "text": text})));
    let l = match r {
        Ok(v) => {
            if let Some(pm) = v.get("panic") {
                acc.violation(Violation { class: "ls_parser_panics".into(), what: format!("[{family}] {text:?}: {pm}"), case: json!({"text": text}), detail: json!({}) });
                return;
            }
            v["syntax_error"].as_bool().unwrap_or(!v["ok"].as_bool().unwrap_or(false))
        }
        Err(e) => {
            acc.violation(Violation { class: "ls_process_dies_on_parse".into(), what: format!("[{family}] {text:?}: {e}"), case: json!({"text": text}), detail: json!({}) });
            return;
        }
    };
    acc.outcome(&format!("parol_syntax_error={p} ls_syntax_error={l}"));
    if p != l {
        let class = if p { "ls_accepts_what_parol_rejects" } else { "ls_rejects_what_parol_accepts" };
        acc.violation(Violation {
            class: class.into(),
            what: format!("[{family}] {text:?}: parol syntax error = {p}, parol-ls syntax error = {l}"),
            case: json!({"text": text}),
            detail: json!({"family": family}),
        });
    }
}

fn run_c34(tier: Tier, replay: Option<&str>) -> i32 {
    if let Some(p) = replay {
        let v = read_replay(p);
        let text = v["text"].as_str().unwrap().to_string();
        return replay_verdict("C34", p, || {
            let acc = Acc::default();
            eval_c34(&text, "replay", &acc);
            let v = acc.violations.lock().unwrap().clone();
            v
        });
    }
    let ctx = Ctx::new("C34", tier);
    let acc = Acc::default();
    let toks = crate::props::nopanic::PAR_TOKENS_PUB;
    let n = tier.pick(3, 4);
    let seqs = crate::props::nopanic::seqs_pub(toks.len(), n);
    acc.count("token_sequences", seqs.len() as u64);
    seqs.par_iter().for_each(|w| {
        if ctx.expired() {
            return;
        }
        let body: String = w.iter().map(|i| toks[*i]).collect::<Vec<_>>().join(" ");
        eval_c34(&body, "PAR tokens", &acc);
        eval_c34(&format!("%start S {body}"), "after %start S", &acc);
        eval_c34(&format!("%start S %% S : {body} ;"), "inside a production", &acc);
        eval_c34(&format!("%start S {body} %% S : 'a' ;"), "inside the prolog", &acc);
    });
    // character level after valid prefixes
    let chars = ["%", ":", ";", "'", "\"", "/", "\\", "S", " ", "é", "<", ">", "^", "@", "=", "?", "!", "*", "{", "\n"];
    let cn = tier.pick(3, 4);
    let cs = crate::props::nopanic::seqs_pub(chars.len(), cn);
    acc.count("character_sequences", cs.len() as u64);
    cs.par_iter().for_each(|w| {
        if ctx.expired() {
            return;
        }
        let t: String = w.iter().map(|i| chars[*i]).collect();
        eval_c34(&format!("%start S %% S: {t}"), "characters in a production", &acc);
        eval_c34(&format!("%start S %% S: 'a' {t};"), "characters before ;", &acc);
        eval_c34(&format!("%start S {t} %% S: 'a';"), "characters in the prolog", &acc);
    });
    for (name, t) in repo_inputs() {
        eval_c34(&t, &format!("repository input {name}"), &acc);
    }
    acc.distinct_n(acc.evaluations.load(std::sync::atomic::Ordering::Relaxed));
    acc.sample(json!({"example": "%start S %% S : ( 'r' | ;"}));
    finish(
        &ctx,
        &acc,
        Finish {
            level: "exploration",
            rule: format!("every sequence of <= {n} tokens of the PAR vocabulary (one representative per terminal of parol.par), bare, after `%start S`, inside a production and inside the prolog; every character string of length <= {cn} over 20 characters (quotes, slash, backslash, operators, a 2-byte character, newline) at three positions of a valid grammar; the 23 formatter inputs of the repository. Oracle: parol::parser::parol_parser::parse reports a syntax error (lexer or parser error, not an error raised by a semantic action) exactly when the language server's parser (hook H3 `parse`) does."),
            exhaustive_note: "all listed texts unless capped=true".into(),
            assumptions: vec!["hook H3 calls parol_ls_parser::parse with a fresh ParolLsGrammar".into()],
            extra: json!({}),
        },
    )
}

// ---------------------------------------------------------------------------------------------
// C30
// ---------------------------------------------------------------------------------------------

fn c30_texts() -> Vec<String> {
    let mut v = small_texts();
    v.extend(vec![
        "".into(),
        "\n".into(),
        "%start S\r\n%%\r\nS: 'a';\r\n".into(),
        "%start S\r%%\rS: 'a';\r".into(),
        "%start S\n%%\nS: 'é' 'ü';".into(),
        "%start S\n%%\nS: '😀' A; // 😀\nA: 'é'".into(),
        "%start S\n%%\nS: 'a' |".into(),
        "%start S %% S: A; A: B; B: S | 'é';".into(),
        "// é\n%start Sé\n".into(),
        "%start S\n%skip A, B\n%on A %enter X\n%scanner X { %on B %pop }\n%%\nS: A B;\nA: 'a';\nB: <X>'b';\n".into(),
        "%start S\n%%\nS: 'a';\né".into(),
        // names that are referenced but never defined: user types written as paths, scanner states
        // without a %scanner block, non-terminals without productions, undefined names in declarations
        "%start S\n%%\nS: N : demo::Number A : other::T;\nN: /[0-9]+/ : demo::Number;\nA: 'a'@m : U;\n".into(),
        "%start S\n%on T %enter Esc\n%skip Undef\n%nt_type Nowhere = x::Y\n%t_type z::T\n%%\nS: T <Esc>'x' <Esc, Other>\"y\" Missing;\nT: 't';\n".into(),
        "%start S\n%user_type U = a::B\n%scanner X { %on Q %push Y %on Q %pop }\n%%\nS: 'a' : U Q : V;\nQ: <X, Z>'q';\n".into(),
        "%start Missing\n%%\nS: S2;\n".into(),
    ]);
    v
}

fn eval_c30(text: &str, acc: &Acc) -> Vec<Violation> {
    let mut out = vec![];
    let lines: Vec<&str> = text.split('\n').collect();
    let nlines = lines.len() as u32;
    let mkv = |class: &str, what: String, req: Value| Violation { class: class.into(), what, case: json!({"text": text, "request": req}), detail: json!({}) };
    with_ls(|ls| {
        ls.new_session(3, true);
        match ls.open(URI, 1, text) {
            Ok(v) if v.get("panic").is_some() => {
                out.push(mkv("open_panics", format!("{text:?}: didOpen panics: {}", v["panic"]), json!("didOpen")));
                return;
            }
            Err(e) => {
                out.push(mkv("server_dies_on_open", format!("{text:?}: {e}"), json!("didOpen")));
                return;
            }
            _ => {}
        }
        let diags: Vec<Value> = ls.messages().iter().filter_map(|m| m["params"]["diagnostics"].as_array().cloned()).flatten().collect();
        let mut positions = vec![];
        for l in 0..=nlines + 1 {
            let width = lines.get(l as usize).map(|s| s.chars().map(|c| c.len_utf16()).sum::<usize>()).unwrap_or(0) as u32;
            for c in 0..=width + 2 {
                positions.push((l, c));
            }
        }
        positions.push((u32::MAX, u32::MAX));
        positions.push((0, u32::MAX));
        let mut seen = std::collections::BTreeSet::new();
        for (l, c) in &positions {
            let pos = json!({"line": l, "character": c});
            let td = json!({"uri": URI});
            let mut reqs: Vec<(&str, Value)> = vec![
                ("textDocument/hover", json!({"textDocument": td, "position": pos})),
                ("textDocument/definition", json!({"textDocument": td, "position": pos})),
                ("textDocument/prepareRename", json!({"textDocument": td, "position": pos})),
                ("textDocument/rename", json!({"textDocument": td, "position": pos, "newName": "Zz"})),
                ("textDocument/codeAction", json!({"textDocument": td, "range": {"start": pos, "end": pos}, "context": {"diagnostics": diags}})),
                ("textDocument/codeAction", json!({"textDocument": td, "range": {"start": {"line": 0, "character": 0}, "end": pos},
                    "context": {"diagnostics": [{"range": {"start": pos, "end": pos}, "message": "Unknown token in scanner state X", "code": "parol_ls::unknown_token", "severity": 1},
                                                {"range": {"start": pos, "end": pos}, "message": "x", "code": "parol::analysis::unreachable_non_terminals"}]}})),
            ];
            if *l == 0 && *c == 0 {
                reqs.push(("textDocument/documentSymbol", json!({"textDocument": td})));
                reqs.push(("textDocument/formatting", json!({"textDocument": td, "options": {"tabSize": 4, "insertSpaces": true}})));
            }
            for (method, params) in reqs {
                acc.eval(1);
                match ls.request(method, params.clone()) {
                    Ok(v) => {
                        if let Some(p) = v.get("panic") {
                            let site = p.as_str().unwrap_or("").rsplit(" @ ").next().unwrap_or("").to_string();
                            let site = site.rsplit('/').next().unwrap_or("").to_string();
                            let class = format!("{}_panics@{}", method.rsplit('/').next().unwrap_or(""), site);
                            if seen.insert(class.clone()) {
                                out.push(mkv(&class, format!("{text:?} position {l}:{c}: {method} panics: {p}"), json!({"method": method, "params": params})));
                            }
                            acc.outcome("panic");
                        } else {
                            acc.outcome(&format!("{method} ok"));
                        }
                    }
                    Err(e) => {
                        out.push(mkv("server_dies", format!("{text:?} position {l}:{c}: {method}: {e}"), json!({"method": method, "params": params})));
                        ls.new_session(3, true);
                        let _ = ls.open(URI, 1, text);
                    }
                }
            }
            // position to offset conversion
            acc.eval(1);
            if let Ok(v) = ls.call(json!({"cmd": "pos_to_offset", "text": text, "line": l, "character": c})) {
                if let Some(p) = v.get("panic") {
                    if seen.insert("pos_to_offset_panics".into()) {
                        out.push(mkv("pos_to_offset_panics", format!("{text:?} position {l}:{c}: {p}"), json!({"pos_to_offset": [l, c]})));
                    }
                } else if let Some(o) = v["offset"].as_u64() {
                    let o = o as usize;
                    if o > text.len() {
                        if seen.insert("pos_to_offset_beyond_text".into()) {
                            out.push(mkv("pos_to_offset_beyond_text", format!("{text:?} position {l}:{c}: offset {o} > length {}", text.len()), json!({"pos_to_offset": [l, c]})));
                        }
                    } else if !text.is_char_boundary(o) {
                        if seen.insert("pos_to_offset_inside_character".into()) {
                            out.push(mkv("pos_to_offset_inside_character", format!("{text:?} position {l}:{c}: offset {o} is inside a multi-byte character"), json!({"pos_to_offset": [l, c]})));
                        }
                    }
                }
            }
        }
    });
    acc.distinct(&text);
    out
}

fn run_c30(tier: Tier, replay: Option<&str>) -> i32 {
    if let Some(p) = replay {
        let v = read_replay(p);
        let text = v["text"].as_str().unwrap().to_string();
        return replay_verdict("C30", p, || eval_c30(&text, &Acc::default()));
    }
    let ctx = Ctx::new("C30", tier);
    let acc = Acc::default();
    let mut texts = c30_texts();
    if tier == Tier::Thorough {
        texts.extend(repo_inputs().into_iter().map(|x| x.1));
    } else {
        texts.extend(repo_inputs().into_iter().map(|x| x.1).filter(|t| t.len() < 400).take(6));
    }
    acc.count("texts", texts.len() as u64);
    texts.par_iter().for_each(|t| {
        if ctx.expired() {
            acc.count("texts_skipped_by_cap", 1);
            return;
        }
        for v in eval_c30(t, &acc) {
            acc.violation(v);
        }
    });
    acc.sample(json!({"text": texts[9], "positions": "every line 0..L+1 x character 0..width+2, plus (max,max), (0,max)"}));
    finish(
        &ctx,
        &acc,
        Finish {
            level: "exploration",
            rule: "documents: 6 valid grammars using every PAR feature, and empty / newline-only / CRLF / lone-CR / 2- and 4-byte characters / no trailing newline / syntactically invalid / non-ASCII identifiers texts, and 4 texts in which user types, scanner states and non-terminals are referenced but never defined (plus repository formatter inputs); for every document every position (line 0..L+1, character 0..width+2 in UTF-16 units, plus u32::MAX corners) x {hover, definition, prepareRename, rename, codeAction with the server's own and with synthetic diagnostics} plus documentSymbol and formatting, through the real handlers of a real Server (hook H3); oracle: every request returns, no panic, the process stays alive; pos_to_offset is <= the text length and on a character boundary for every position.".into(),
            exhaustive_note: "all listed documents, positions and requests unless capped=true".into(),
            assumptions: vec!["background analyses are queued by the gate (hook H4) and not run in this check".into()],
            extra: json!({}),
        },
    )
}

// ---------------------------------------------------------------------------------------------
// C27
// ---------------------------------------------------------------------------------------------

/// comments of a PAR text in order (outside of literals)
pub fn comments_of(text: &str) -> Vec<String> {
    let b: Vec<char> = text.chars().collect();
    let mut out = vec![];
    let mut i = 0;
    while i < b.len() {
        let c = b[i];
        if c == '"' || c == '\'' {
            let q = c;
            i += 1;
            while i < b.len() && b[i] != q {
                if b[i] == '\\' {
                    i += 1;
                }
                i += 1;
            }
            i += 1;
        } else if c == '/' && i + 1 < b.len() && b[i + 1] == '/' {
            let s = i;
            while i < b.len() && b[i] != '\n' {
                i += 1;
            }
            out.push(b[s..i].iter().collect::<String>().trim_end().to_string());
        } else if c == '/' && i + 1 < b.len() && b[i + 1] == '*' {
            let s = i;
            i += 2;
            while i + 1 < b.len() && !(b[i] == '*' && b[i + 1] == '/') {
                i += 1;
            }
            i = (i + 2).min(b.len());
            out.push(b[s..i].iter().collect::<String>());
        } else if c == '/' {
            i += 1;
            while i < b.len() && b[i] != '/' {
                if b[i] == '\\' {
                    i += 1;
                }
                i += 1;
            }
            i += 1;
        } else {
            i += 1;
        }
    }
    out
}

/// (category, text) of every token of a PAR text, comments included
fn par_tokens(text: &str) -> Vec<(String, String)> {
    let b: Vec<char> = text.chars().collect();
    let mut out = vec![];
    let mut i = 0;
    while i < b.len() {
        let c = b[i];
        let s = i;
        if c.is_whitespace() {
            i += 1;
            continue;
        }
        let cat;
        if c == '"' || c == '\'' {
            i += 1;
            while i < b.len() && b[i] != c {
                if b[i] == '\\' {
                    i += 1;
                }
                i += 1;
            }
            i += 1;
            cat = "literal";
        } else if c == '/' && i + 1 < b.len() && b[i + 1] == '/' {
            while i < b.len() && b[i] != '\n' {
                i += 1;
            }
            cat = "line_comment";
        } else if c == '/' && i + 1 < b.len() && b[i + 1] == '*' {
            i += 2;
            while i + 1 < b.len() && !(b[i] == '*' && b[i + 1] == '/') {
                i += 1;
            }
            i = (i + 2).min(b.len());
            cat = "block_comment";
        } else if c == '/' {
            i += 1;
            while i < b.len() && b[i] != '/' {
                if b[i] == '\\' {
                    i += 1;
                }
                i += 1;
            }
            i += 1;
            cat = "literal";
        } else if c == '%' {
            i += 1;
            while i < b.len() && (b[i].is_alphanumeric() || b[i] == '_' || b[i] == '%') {
                i += 1;
            }
            let t: String = b[s..i.min(b.len())].iter().collect();
            out.push((t.clone(), t));
            continue;
        } else if c.is_alphanumeric() || c == '_' {
            while i < b.len() && (b[i].is_alphanumeric() || b[i] == '_') {
                i += 1;
            }
            cat = "ident";
        } else if c == ':' && i + 1 < b.len() && b[i + 1] == ':' {
            i += 2;
            cat = "::";
        } else if c == '?' && i + 1 < b.len() {
            i += 2;
            cat = "?=";
        } else {
            i += 1;
            let t: String = b[s..i].iter().collect();
            out.push((t.clone(), t));
            continue;
        }
        out.push((cat.to_string(), b[s..i.min(b.len())].iter().collect()));
    }
    out
}

/// context of the n-th comment of a text: "<kind>,after=<category>,before=<category>"
fn comment_context(text: &str, n: usize) -> String {
    let toks = par_tokens(text);
    let mut k = 0;
    for (i, (cat, _)) in toks.iter().enumerate() {
        let is_c = |c: &str| c == "line_comment" || c == "block_comment";
        if is_c(cat) {
            if k == n {
                let prev = toks[..i].iter().rev().find(|t| !is_c(&t.0)).map(|t| t.0.clone()).unwrap_or("BOF".into());
                let next = toks[i + 1..].iter().find(|t| !is_c(&t.0)).map(|t| t.0.clone()).unwrap_or("EOF".into());
                return format!("{cat},after={prev},before={next}");
            }
            k += 1;
        }
    }
    "unknown".into()
}

/// token gaps of a PAR text: byte offsets where a comment may be inserted (after whitespace
/// runs that separate tokens, at the start and at the end)
fn gaps_of(text: &str) -> Vec<usize> {
    let mut g = vec![0];
    let b = text.as_bytes();
    let mut i = 0;
    let mut in_lit: Option<u8> = None;
    while i < b.len() {
        let c = b[i];
        match in_lit {
            Some(q) => {
                if c == b'\\' {
                    i += 1;
                } else if c == q {
                    in_lit = None;
                }
            }
            None => {
                if c == b'"' || c == b'\'' || (c == b'/' && i + 1 < b.len() && b[i + 1] != b'/' && b[i + 1] != b'*') {
                    in_lit = Some(c);
                } else if (c == b' ' || c == b'\n') && i + 1 < b.len() && b[i + 1] != b' ' && b[i + 1] != b'\n' {
                    g.push(i + 1);
                }
            }
        }
        i += 1;
    }
    g.push(text.len());
    g.dedup();
    g
}

#[derive(serde::Serialize, serde::Deserialize, Clone, Debug)]
struct FmtCase {
    text: String,
    empty_line_after_prod: bool,
    prod_semicolon_on_nl: bool,
    max_line_length: usize,
}

fn format_once(ls: &mut Ls, case: &FmtCase, text: &str) -> Result<String, (String, String)> {
    ls.new_session(3, true);
    let _ = ls.call(json!({"cmd": "config", "props": {
        "formatting.empty_line_after_prod": case.empty_line_after_prod,
        "formatting.prod_semicolon_on_nl": case.prod_semicolon_on_nl,
        "formatting.max_line_length": case.max_line_length}}));
    match ls.open(URI, 1, text) {
        Ok(v) if v.get("panic").is_some() => return Err(("open_panics".into(), v["panic"].to_string())),
        Err(e) => return Err(("server_dies_on_open".into(), e)),
        _ => {}
    }
    let r = ls.request("textDocument/formatting", json!({"textDocument": {"uri": URI}, "options": {"tabSize": 4, "insertSpaces": true}}));
    match r {
        Err(e) => Err(("server_dies_on_formatting".into(), e)),
        Ok(v) => {
            if let Some(p) = v.get("panic") {
                let site = p.as_str().unwrap_or("").rsplit(" @ ").next().unwrap_or("").rsplit('/').next().unwrap_or("").to_string();
                return Err((format!("formatting_panics@{site}"), p.to_string()));
            }
            if v["result"].is_null() {
                return Err(("formatting_returns_nothing".into(), v.to_string()));
            }
            let edits = edits_of(&v["result"]);
            apply_edits(text, &edits).map_err(|e| ("formatting_edits_invalid".into(), e))
        }
    }
}

fn eval_c27(case: &FmtCase, acc: &Acc) -> Vec<Violation> {
    let mut out = vec![];
    let mkv = |class: &str, what: String| Violation { class: class.into(), what, case: json!({"fmt": case}), detail: json!({}) };
    let short: String = case.text.replace('\n', "\\n").chars().take(160).collect();
    let opts = format!("empty_line_after_prod={} prod_semicolon_on_nl={} max_line_length={}", case.empty_line_after_prod, case.prod_semicolon_on_nl, case.max_line_length);
    let Ok(gc0) = read_gc(&case.text) else {
        acc.outcome("input not accepted by parol");
        return out;
    };
    acc.eval(1);
    let r = with_ls(|ls| format_once(ls, case, &case.text));
    let f1 = match r {
        Ok(t) => t,
        Err((class, e)) => {
            let c0 = comments_of(&case.text);
            let ctx = if c0.is_empty() { "no_comments".to_string() } else { comment_context(&case.text, c0.len() - 1) };
            out.push(mkv(&format!("{class}({ctx})"), format!("{short} [{opts}]: {e}")));
            return out;
        }
    };
    acc.distinct(&(case.text.clone(), case.empty_line_after_prod, case.prod_semicolon_on_nl, case.max_line_length));
    // meaning
    match read_gc(&f1) {
        Err(e) => out.push(mkv("formatted_text_rejected_by_parol", format!("{short} [{opts}]: formatted text {:?} is rejected: {e}", f1))),
        Ok(gc1) => {
            let m = NameMap { nt: &ident, state: &ident };
            let a = canon(&gc0, &m);
            let b = canon(&gc1, &m);
            if a != b {
                let i = a.iter().zip(b.iter()).position(|(x, y)| x != y).unwrap_or(a.len().min(b.len()));
                out.push(mkv(
                    "formatting_changes_the_grammar",
                    format!("{short} [{opts}]: after formatting {} is {:?}, was {:?}; formatted: {:?}", a.get(i).map(|x| x.0.clone()).unwrap_or_default(), b.get(i).map(|x| &x.1), a.get(i).map(|x| &x.1), f1),
                ));
            }
        }
    }
    // comments
    let c0 = comments_of(&case.text);
    let c1 = comments_of(&f1);
    if c0 != c1 {
        // first comment of the original that is not matched in order
        let mut j = 0;
        let mut lost = None;
        for (i, c) in c0.iter().enumerate() {
            if j < c1.len() && c1[j] == *c {
                j += 1;
            } else if lost.is_none() {
                lost = Some(i);
            }
        }
        let class = match lost {
            Some(i) => format!("comment_lost({})", comment_context(&case.text, i)),
            None => "comment_duplicated_or_invented".to_string(),
        };
        out.push(mkv(&class, format!("{short} [{opts}]: comments {c0:?} became {c1:?}; formatted: {:?}", f1)));
    }
    // idempotence
    match with_ls(|ls| format_once(ls, case, &f1)) {
        Ok(f2) => {
            if f2 != f1 {
                // the context of the first line comment if there is one (line comments are what the known
                // instability is about), else of the first comment
                let idx = c0.iter().position(|c| c.starts_with("//")).unwrap_or(0);
                let ctx = if c0.is_empty() { "no_comments".to_string() } else { comment_context(&case.text, idx) };
                out.push(mkv(&format!("formatting_not_idempotent({ctx})"), format!("{short} [{opts}]: format(x) = {:?} but format(format(x)) = {:?}", f1, f2)));
            }
        }
        Err((class, e)) => out.push(mkv(&format!("second_{class}"), format!("{short} [{opts}]: {e}; first result {:?}", f1))),
    }
    acc.fallback(|| json!({"text": case.text, "options": opts}));
    if acc.want_sample() && !c0.is_empty() {
        acc.sample(json!({"text": case.text, "options": opts, "formatted": f1}));
    }
    out
}

fn run_c27(tier: Tier, replay: Option<&str>) -> i32 {
    if let Some(p) = replay {
        let v = read_replay(p);
        let case: FmtCase = serde_json::from_value(v["fmt"].clone()).expect("bad replay");
        return replay_verdict("C27", p, || eval_c27(&case, &Acc::default()));
    }
    let ctx = Ctx::new("C27", tier);
    let acc = Acc::default();
    let mut texts: Vec<String> = repo_inputs().into_iter().map(|x| x.1).collect();
    let base = small_texts();
    let comment_items = ["// c1\n", "/* c2 */ ", "/* // c3 */\n"];
    for t in &base {
        texts.push(t.clone());
        let gaps = gaps_of(t);
        // one comment in every gap
        for g in &gaps {
            for c in &comment_items {
                let mut s = t.clone();
                s.insert_str(*g, c);
                texts.push(s);
            }
        }
        // two comments in the same gap: every ordered pair of kinds, plus a block comment over two lines
        let same_gap_items = ["// c1\n", "/* c2 */ ", "/* // c3 */\n", "/* c4\n   c4 */\n"];
        for g in &gaps {
            for c1 in &same_gap_items {
                for c2 in &same_gap_items {
                    let mut s = t.clone();
                    s.insert_str(*g, &format!("{c1}{}", c2.replace('c', "d")));
                    texts.push(s);
                }
            }
        }
        // two comments (thorough: all pairs of gaps; quick: neighbouring gaps)
        for (i, g1) in gaps.iter().enumerate() {
            for (j, g2) in gaps.iter().enumerate() {
                if j < i || (tier == Tier::Quick && j > i + 1) {
                    continue;
                }
                let mut s = t.clone();
                s.insert_str(*g2, "/* second */ ");
                s.insert_str(*g1, "// first\n");
                texts.push(s);
            }
        }
    }
    let mut cases = vec![];
    for t in &texts {
        for e in [true, false] {
            for s in [true, false] {
                for m in [20usize, 100, 1000] {
                    cases.push(FmtCase { text: t.clone(), empty_line_after_prod: e, prod_semicolon_on_nl: s, max_line_length: m });
                }
            }
        }
    }
    acc.count("texts", texts.len() as u64);
    acc.count("cases", cases.len() as u64);
    cases.par_iter().for_each(|c| {
        if ctx.expired() {
            acc.count("cases_skipped_by_cap", 1);
            return;
        }
        for v in eval_c27(c, &acc) {
            acc.violation(v);
        }
    });
    finish(
        &ctx,
        &acc,
        Finish {
            level: "exploration",
            rule: "texts: the 23 formatter inputs of the repository and 6 small grammars using every PAR feature, each of the latter with one comment (line, block, block containing `//`) in every token gap (start and end of file included) with two comments of every ordered pair of kinds (line, block, block containing `//`, block over two lines) in the same gap, and with two comments in every pair of gaps (quick: neighbouring gaps); x all 12 option combinations (empty_line_after_prod x prod_semicolon_on_nl x max_line_length in {20,100,1000}); formatted through the real formatting handler (hook H3). Oracle: parol reads the formatted text and yields a structurally equal GrammarConfig; the comments are the same sequence; format(format(x)) = format(x).".into(),
            exhaustive_note: "all listed texts, placements and option combinations unless capped=true".into(),
            assumptions: vec!["comments are extracted by a PAR-aware scan that skips string, raw-string and regex literals".into()],
            extra: json!({}),
        },
    )
}

// ---------------------------------------------------------------------------------------------
// C28
// ---------------------------------------------------------------------------------------------

#[derive(serde::Serialize, serde::Deserialize, Clone, Debug)]
struct RenCase {
    text: String,
    new_name: String,
    only: Option<(u32, u32)>,
}

fn word_at(text: &str, line: u32, ch: u32) -> Option<String> {
    let l = text.split('\n').nth(line as usize)?;
    let cs: Vec<char> = l.chars().collect();
    let i = ch as usize;
    if i >= cs.len() || !(cs[i].is_alphanumeric() || cs[i] == '_') {
        return None;
    }
    let mut s = i;
    while s > 0 && (cs[s - 1].is_alphanumeric() || cs[s - 1] == '_') {
        s -= 1;
    }
    let mut e = i;
    while e < cs.len() && (cs[e].is_alphanumeric() || cs[e] == '_') {
        e += 1;
    }
    Some(cs[s..e].iter().collect())
}

fn eval_c28(case: &RenCase, acc: &Acc) -> Vec<Violation> {
    let mut out = vec![];
    let Ok(gc0) = read_gc(&case.text) else {
        acc.outcome("input not accepted by parol");
        return out;
    };
    let short: String = case.text.replace('\n', "\\n").chars().take(140).collect();
    let mkv = |class: &str, what: String, pos: (u32, u32)| {
        let mut c = case.clone();
        c.only = Some(pos);
        Violation { class: class.into(), what, case: json!({"rename": c}), detail: json!({}) }
    };
    let nts: Vec<String> = gc0.cfg.get_non_terminal_set().into_iter().collect();
    let states: Vec<String> = gc0.scanner_configurations.iter().map(|s| s.scanner_name.clone()).collect();
    let lines: Vec<&str> = case.text.split('\n').collect();
    let mut positions = vec![];
    match case.only {
        Some(p) => positions.push(p),
        None => {
            for (l, line) in lines.iter().enumerate() {
                for c in 0..=line.chars().count() {
                    positions.push((l as u32, c as u32));
                }
            }
        }
    }
    let mut renamed_ok = std::collections::BTreeSet::new();
    with_ls(|ls| {
        ls.new_session(3, true);
        if ls.open(URI, 1, &case.text).is_err() {
            return;
        }
        for (l, c) in &positions {
            acc.eval(1);
            let td = json!({"uri": URI});
            let pos = json!({"line": l, "character": c});
            let prep = ls.request("textDocument/prepareRename", json!({"textDocument": td, "position": pos}));
            let ren = ls.request("textDocument/rename", json!({"textDocument": td, "position": pos, "newName": case.new_name}));
            let (Ok(prep), Ok(ren)) = (prep, ren) else {
                out.push(mkv("server_dies_on_rename", format!("{short} at {l}:{c}"), (*l, *c)));
                ls.new_session(3, true);
                let _ = ls.open(URI, 1, &case.text);
                continue;
            };
            if prep.get("panic").is_some() || ren.get("panic").is_some() {
                out.push(mkv("rename_panics", format!("{short} at {l}:{c}: {} {}", prep, ren), (*l, *c)));
                continue;
            }
            let word = word_at(&case.text, *l, *c);
            let mut edits = ren["result"]["changes"].as_object().and_then(|o| o.values().next()).map(edits_of).unwrap_or_default();
            if let Some(dc) = ren["result"]["documentChanges"].as_array() {
                for d in dc {
                    edits.extend(edits_of(&d["edits"]));
                }
            }
            if edits.is_empty() {
                acc.outcome("no edits");
                continue;
            }
            let Some(old) = word else {
                out.push(mkv("rename_edits_without_identifier", format!("{short} at {l}:{c}: edits {:?} although there is no identifier", edits), (*l, *c)));
                continue;
            };
            // start symbol and INITIAL must be refused
            if old == gc0.cfg.st || old == "INITIAL" {
                out.push(mkv("start_symbol_or_initial_renamed", format!("{short} at {l}:{c}: rename of {old} is not refused"), (*l, *c)));
                continue;
            }
            if !prep["result"].is_object() {
                out.push(mkv("rename_without_prepare", format!("{short} at {l}:{c}: rename yields edits but prepareRename refused"), (*l, *c)));
            }
            let new_text = match apply_edits(&case.text, &edits) {
                Ok(t) => t,
                Err(e) => {
                    out.push(mkv("rename_edits_invalid", format!("{short} at {l}:{c}: {e}"), (*l, *c)));
                    continue;
                }
            };
            let gc1 = match read_gc(&new_text) {
                Ok(g) => g,
                Err(e) => {
                    out.push(mkv("renamed_text_rejected_by_parol", format!("{short} at {l}:{c}: renaming {old} to {} gives {:?}: {e}", case.new_name, new_text), (*l, *c)));
                    continue;
                }
            };
            // expected: exactly `old` renamed, as a non-terminal or as a scanner state
            let as_nt = |n: &str| if n == old { case.new_name.clone() } else { n.to_string() };
            let id = NameMap { nt: &ident, state: &ident };
            let got = canon(&gc1, &id);
            let want_nt = canon(&gc0, &NameMap { nt: &as_nt, state: &ident });
            let want_st = canon(&gc0, &NameMap { nt: &ident, state: &as_nt });
            let ok = (nts.contains(&old) && got == want_nt) || (states.contains(&old) && got == want_st);
            if ok {
                renamed_ok.insert(old.clone());
                acc.outcome("renamed consistently");
            } else {
                let want = if nts.contains(&old) { &want_nt } else { &want_st };
                let i = got.iter().zip(want.iter()).position(|(x, y)| x != y).unwrap_or(got.len().min(want.len()));
                let class = if !nts.contains(&old) && !states.contains(&old) { "rename_of_something_that_is_no_symbol" } else if nts.contains(&old) && states.contains(&old) { "rename_of_name_shared_by_non_terminal_and_state_inconsistent" } else { "rename_inconsistent" };
                out.push(mkv(
                    class,
                    format!("{short} at {l}:{c}: renaming {old} to {}: {} is {:?}, expected {:?}; new text {:?}", case.new_name, got.get(i).map(|x| x.0.clone()).unwrap_or_default(), got.get(i).map(|x| &x.1), want.get(i).map(|x| &x.1), new_text),
                    (*l, *c),
                ));
            }
            if out.len() > 8 {
                return;
            }
        }
    });
    if case.only.is_none() {
        // every non-start non-terminal and every non-INITIAL state must be renameable somewhere
        let in_text = |n: &String| par_tokens(&case.text).iter().any(|t| t.0 == "ident" && t.1 == *n);
        for n in nts.iter().filter(|n| **n != gc0.cfg.st && in_text(n)).chain(states.iter().filter(|s| *s != "INITIAL")) {
            if !renamed_ok.contains(n) && !out.iter().any(|v| v.what.contains(&format!("renaming {n} "))) {
                out.push(mkv("symbol_cannot_be_renamed_anywhere", format!("{short}: no position yields a consistent rename of {n}"), (0, 0)));
            }
        }
        if !renamed_ok.is_empty() {
            acc.distinct(&(case.text.clone(), case.new_name.clone()));
            if acc.want_sample() {
                acc.sample(json!({"text": case.text, "new_name": case.new_name, "renamed": renamed_ok}));
            }
        }
    }
    out
}

fn c28_texts() -> Vec<String> {
    let mut v = small_texts();
    v.extend(vec![
        // every place an identifier can refer to a non-terminal or a scanner state
        "%start S\n%nt_type A = crate::m::A\n%skip W\n%on Q %enter St\n%scanner St {\n  %on Q %enter INITIAL\n  %skip V\n}\n%%\nS: A { X } ;\nA: 'a' ;\nX: Q C Q | W ;\nQ: <INITIAL, St>'q' ;\nC: <St>'c' | <St> V ;\nV: <St>'v' ;\nW: 'w' ;\n".to_string(),
        // a non-terminal and a scanner state sharing one name; a user type alias named like a non-terminal
        "%start S\n%user_type A = crate::m::A\n%on Q %push X\n%scanner X {\n  %on Q %pop\n}\n%%\nS: X A ;\nX: Q B Q ;\nA: 'a' : A ;\nB: <X>'b' ;\nQ: <INITIAL, X>'q' ;\n".to_string(),
        // identifier lists with several entries (%on A, B, C ... / %skip A, B, C) at top level and in a scanner block,
        // and several scanner states in one <...> prefix
        "%start S\n%skip W, V, U\n%on Q, R, P %enter St\n%scanner St {\n  %on R, Q, P %enter INITIAL\n  %skip U, W, V\n}\n%scanner Tt {\n  %on P %push St\n}\n%%\nS: { X } ;\nX: Q | R | P | W | V | U | C ;\nQ: <INITIAL, St>'q' ;\nR: <St, INITIAL>'r' ;\nP: <INITIAL, St, Tt>'p' ;\nC: <St>'c' ;\nW: <INITIAL, St>'w' ;\nV: <St, INITIAL>'v' ;\nU: <INITIAL, St>'u' ;\n".to_string(),
        // names that are prefixes / suffixes of each other
        "%start S\n%%\nS: A AA A1 ;\nA: 'a' ;\nAA: 'b' A ;\nA1: 'c' AA ;\n".to_string(),
    ]);
    v
}

fn run_c28(tier: Tier, replay: Option<&str>) -> i32 {
    if let Some(p) = replay {
        let v = read_replay(p);
        let case: RenCase = serde_json::from_value(v["rename"].clone()).expect("bad replay");
        return replay_verdict("C28", p, || eval_c28(&case, &Acc::default()));
    }
    let ctx = Ctx::new("C28", tier);
    let acc = Acc::default();
    let mut cases = vec![];
    let mut texts = c28_texts();
    if tier == Tier::Thorough {
        texts.extend(repo_inputs().into_iter().map(|x| x.1));
    }
    for t in texts {
        for n in ["Zz", "A2", "Zz_1"] {
            cases.push(RenCase { text: t.clone(), new_name: n.to_string(), only: None });
        }
    }
    acc.count("cases", cases.len() as u64);
    cases.par_iter().for_each(|c| {
        if ctx.expired() {
            acc.count("cases_skipped_by_cap", 1);
            return;
        }
        for v in eval_c28(c, &acc) {
            acc.violation(v);
        }
    });
    finish(
        &ctx,
        &acc,
        Finish {
            level: "exploration",
            rule: "texts: 9 grammars covering every syntactic place an identifier can refer to a non-terminal or scanner state (%nt_type, %skip, %on .. %enter/%push, %scanner blocks, <state> prefixes, left- and right-hand sides), a non-terminal and a state sharing a name, a user type alias named like a non-terminal, names that are prefixes of each other (thorough: plus the repository formatter inputs); x every character position x 3 fresh names; prepareRename and rename through the real handlers (hook H3). Oracle: wherever rename yields edits, applying them gives a text parol reads as the original GrammarConfig with exactly that non-terminal / scanner state renamed; start symbol and INITIAL are refused; every other non-terminal and state can be renamed from at least one position.".into(),
            exhaustive_note: "all listed texts, positions and names unless capped=true".into(),
            assumptions: vec!["texts are ASCII so that UTF-16 positions equal character positions".into()],
            extra: json!({}),
        },
    )
}

pub fn run(id: &str, tier: Tier, replay: Option<&str>) -> i32 {
    match id {
        "C34" => run_c34(tier, replay),
        "C30" => run_c30(tier, replay),
        "C27" => run_c27(tier, replay),
        "C28" => run_c28(tier, replay),
        _ => 2,
    }
}
