use parol::analysis::k_decision::{FirstCache, FollowCache};
use parol::obtain_grammar_config_from_string;

pub fn run(args: &[String]) -> i32 {
    let par = std::fs::read_to_string(&args[0]).unwrap();
    let k: usize = args[1].parse().unwrap();
    let gc = obtain_grammar_config_from_string(&par, false).unwrap();
    let fc = FirstCache::new();
    let foc = FollowCache::new();
    let f = fc.get(k, &gc);
    for (i, p) in f.borrow().productions.iter().enumerate() {
        crate::outln!("FIRST_{k}(prod {i}) = {p:?}");
    }
    let fo = foc.get(k, &gc, &fc);
    let fs = parol::verif_hooks::cache_entry_follow_set(&fo.borrow());
    for (i, p) in fs.non_terminals.iter().enumerate() {
        crate::outln!("FOLLOW_{k}(nt {i}) = {p:?}");
    }
    for (i, p) in f.borrow().productions.iter().enumerate() {
        let c = p.clone().k_concat(&fs.non_terminals[0], k);
        crate::outln!("LA_{k}(prod {i}) = {c:?}");
    }
    0
}
