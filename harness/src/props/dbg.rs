use parol::analysis::k_decision::{FirstCache, FollowCache};
use parol::obtain_grammar_config_from_string;

pub fn run(args: &[String]) -> i32 {
    if args[0] == "model" {
        let par = std::fs::read_to_string(&args[1]).unwrap();
        let g = crate::bind::pipeline(&par, 3, &crate::bind::GenCfg::default()).map_err(|e| e.msg).unwrap();
        let m = match &g.analysis {
            crate::bind::Analysis::Ll(d) => parol::generate_parser_export_model(&g.gc, d).unwrap(),
            crate::bind::Analysis::Lr(t, _) => parol::generate_lalr1_parser_export_model(&g.gc, t).unwrap(),
        };
        crate::outln!("{}", serde_json::to_string_pretty(&m).unwrap());
        if args.len() > 2 { crate::outln!("{}", g.parser_src); }
        return 0;
    }
    if args[0] == "tokens" {
        let par = std::fs::read_to_string(&args[1]).unwrap();
        let text = args[2].replace("\\n", "\n").replace("\\r", "\r");
        let (_g, b) = crate::bind::generate_and_bind(&par, 3, &crate::bind::GenCfg::default()).map_err(|e| e.msg).unwrap();
        for t in crate::props::scanner::deliver(&b, &text, 1, &[]).unwrap() {
            crate::outln!("{:?}", t);
        }
        let o = b.parse(&text, &crate::bind::RunOpts::default());
        crate::outln!("ok={} err={:?}", o.ok, o.err);
        let mut l = vec![];
        if let Some(t) = &o.tree { t.leaves(&mut l); }
        for t in l { crate::outln!("leaf {:?}", t); }
        return 0;
    }
    let par = std::fs::read_to_string(&args[0]).unwrap();
    let k: usize = args[1].parse().unwrap();
    let gc = obtain_grammar_config_from_string(&par, false).unwrap();
    let fc = FirstCache::new();
    let foc = FollowCache::new();
    let f = fc.get(k, &gc);
    for (i, p) in f.borrow().productions.iter().enumerate() {
        crate::outln!("FIRST_{k}(prod {i}) = {p:?}");
    }
    let fo = foc.get(k, &gc, &fc);
    let fs = parol::verif_hooks::cache_entry_follow_set(&fo.borrow());
    for (i, p) in fs.non_terminals.iter().enumerate() {
        crate::outln!("FOLLOW_{k}(nt {i}) = {p:?}");
    }
    for (i, p) in f.borrow().productions.iter().enumerate() {
        let c = p.clone().k_concat(&fs.non_terminals[0], k);
        crate::outln!("LA_{k}(prod {i}) = {c:?}");
    }
    0
}
