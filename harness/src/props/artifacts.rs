//! C18 (all generated parts agree on terminal identity) and C21 (generated source and export
//! model encode the analysis faithfully; translation validation).

use rayon::prelude::*;
use serde_json::{Value, json};
use std::collections::BTreeMap;

use crate::bind::{Analysis, Bound, GenCfg, Generated, Tables, bind, pipeline};
use crate::common::*;
use crate::srcval::{ModeText, scanner_text};

#[derive(serde::Serialize, serde::Deserialize, Clone, Debug)]
pub struct Case {
    pub par: String,
    pub k: usize,
}

fn vio(class: &str, what: String, case: &Case, detail: Value) -> Violation {
    Violation { class: class.into(), what, case: json!({"case": case}), detail }
}

// ---------------------------------------------------------------------------------------------
// grammar space
// ---------------------------------------------------------------------------------------------

pub fn annot_grammars(tier: Tier) -> Vec<String> {
    let pool: Vec<&str> = vec!["\"a\"", "'a'", "/a/", "\"a.\"", "'a.'", "'b'", "'a' ?= 'b'", "\"a\" ?= 'b'", "'a' ?! \"b\"", "/b+/", "/a+/ ?= '.'", "'a+' ?! /b+/"];
    let mut out = vec![];
    let skeletons2: Vec<&str> = vec![
        "S: {0} {1};",
        "S: {0} | {1};",
        "S: {0} [ {1} ];",
        "S: {{ {0} }} {1};",
        "S: A {1}; A: {0};",
        "S: {1} A; A: {0} | ;",
        "S: {0}^ {1}@m;",
    ];
    let skeletons3: Vec<&str> = vec!["S: {0} {1} {2};", "S: {0} | {1} | {2};", "S: A {2}; A: {0} {1} | {1};"];
    for lalr in [false, true] {
        let gt = if lalr { "%grammar_type 'LALR(1)'\n" } else { "" };
        for (i, a) in pool.iter().enumerate() {
            for (j, b) in pool.iter().enumerate() {
                if i == j {
                    continue;
                }
                for sk in &skeletons2 {
                    let body = sk.replace("{0}", a).replace("{1}", b).replace("{{", "{").replace("}}", "}");
                    out.push(format!("%start S\n{gt}%%\n{body}\n"));
                }
                if tier == Tier::Thorough || (i + j) % 3 == 0 {
                    for (l, c) in pool.iter().enumerate() {
                        if l == i || l == j {
                            continue;
                        }
                        if tier == Tier::Quick && (i + j + l) % 4 != 0 {
                            continue;
                        }
                        for sk in &skeletons3 {
                            let body = sk.replace("{0}", a).replace("{1}", b).replace("{2}", c);
                            out.push(format!("%start S\n{gt}%%\n{body}\n"));
                        }
                    }
                }
            }
        }
        // scanner states, skip lists, transitions
        for c in crate::props::scanner::multi_state_cfgs_pub(lalr) {
            out.push(c.to_par());
        }
        // skip lists whose terminals have the lowest / highest numbers: the skipped non-terminal's production
        // comes first (its terminal is number 5) or last; one and two skipped terminals; also in a second state
        for (skips, first) in [("H", true), ("H", false), ("H, G", true), ("H, G", false)] {
            let hg = "H: '#';\nG: '!';\n";
            let body = "S: 'a' { 'b' } [ X ];\nX: <Y>'c';\n";
            let prods = if first { format!("{hg}{body}") } else { format!("{body}{hg}") };
            out.push(format!("%start S\n{gt}%skip {skips}\n%on H %enter Y\n%scanner Y {{\n  %skip {skips}\n  %on H %enter INITIAL\n}}\n%%\n{prods}").replace("H: '#'", "H: <INITIAL, Y>'#'").replace("G: '!'", "G: <INITIAL, Y>'!'"));
            out.push(format!("%start S\n{gt}%skip {skips}\n%%\n{}", prods.replace("[ X ]", "").replace("X: <Y>'c';\n", "")));
        }
        for body in ["S: 'a' { 'b' };", "S: A { A }; A: 'a' | 'b' 'a';", "S: \"a\" 'a' { 'b' };"] {
            out.push(format!("%start S\n{gt}%line_comment '#'\n%skip CStart\n%on CStart %push Cmt\n%scanner Cmt {{\n  %auto_newline_off\n  %auto_ws_off\n  %skip CText, CEnd\n  %on CEnd %pop\n}}\n%%\n{body}\nCStart: '<';\nCEnd: <Cmt>'>';\nCText: <Cmt>/[^>]+/;\n"));
            out.push(format!("%start S\n{gt}%on Q %enter Str\n%scanner Str {{\n  %auto_ws_off\n  %on Q %enter INITIAL\n}}\n%%\n{body}\nQ: <INITIAL, Str>'\"';\nC: <Str>/[^\"]+/;\nX: Q C Q;\n").replace("S: ", "S0: X S; S: "));
        }
    }
    // plus a slice of the enumerated BNF/EBNF spaces
    let mut grams = crate::props::ll::ll_grammars(Tier::Quick);
    grams.extend(crate::props::lr::lr_grammars(Tier::Quick));
    let step = tier.pick(9, 2);
    for (i, g) in grams.iter().enumerate() {
        if i % step == 0 {
            out.push(g.to_par());
        }
    }
    out
}

// ---------------------------------------------------------------------------------------------
// terminal identity
// ---------------------------------------------------------------------------------------------

#[derive(Clone, Debug, PartialEq, Eq, PartialOrd, Ord)]
struct Ident {
    text: String,
    raw: bool,
    la: Option<(bool, String, bool)>,
}

fn ident_of(s: &parol::Symbol) -> Option<(Ident, Vec<usize>)> {
    if let parol::Symbol::T(parol::Terminal::Trm(t, k, states, _, _, _, l)) = s {
        Some((
            Ident {
                text: t.clone(),
                raw: matches!(k, parol::TerminalKind::Raw),
                la: l.as_ref().map(|l| (l.is_positive, l.pattern.clone(), matches!(l.kind, parol::TerminalKind::Raw))),
            },
            states.clone(),
        ))
    } else {
        None
    }
}

fn expand(text: &str, raw: bool) -> String {
    if raw { parol::TerminalKind::Raw.expand(text) } else { text.to_string() }
}

/// terminal identities in order of first occurrence with the union of their scanner states
fn numbering(cfg: &parol::Cfg) -> Vec<(Ident, Vec<usize>)> {
    let mut v: Vec<(Ident, Vec<usize>)> = vec![];
    for p in &cfg.pr {
        for s in p.get_r() {
            if let Some((id, st)) = ident_of(s) {
                if let Some(e) = v.iter_mut().find(|(i, _)| *i == id) {
                    for x in st {
                        if !e.1.contains(&x) {
                            e.1.push(x);
                        }
                    }
                } else {
                    v.push((id, st));
                }
            }
        }
    }
    v
}

fn eval_c18(case: &Case, acc: &Acc) -> Vec<Violation> {
    let mut out = vec![];
    let short = case.par.replace('\n', " ");
    let g = match catch(|| pipeline(&case.par, case.k, &GenCfg::default())) {
        Ok(Ok(g)) => g,
        Ok(Err(e)) if matches!(e.stage, crate::bind::Stage::Analysis) => {
            // rejected by the analysis: must not be because two terminals were confused
            acc.outcome("rejected_by_analysis");
            if let Some(w) = identity_says_acceptable(&case.par, case.k) {
                out.push(vio("analysis_rejects_grammar_that_is_fine_when_terminals_are_told_apart", format!("{short}: {w}; parol: {}", e.msg.chars().take(80).collect::<String>()), case, json!({})));
            }
            return out;
        }
        _ => {
            acc.outcome("not_accepted");
            return out;
        }
    };
    acc.outcome("accepted");
    acc.eval(1);
    let bound = match bind(&g.parser_src) {
        Ok(b) => b,
        Err(m) => {
            out.push(vio("machinery_bind", format!("{short}: {m}"), case, json!({})));
            return out;
        }
    };
    if let Some((class, what)) = identity_analysis(&g, &bound, case.k) {
        out.push(vio(class, format!("{short}: {what}"), case, json!({})));
    }
    let num = numbering(&g.gc.cfg);
    let number_of = |id: &Ident| -> Option<usize> { num.iter().position(|(i, _)| i == id).map(|p| p + 5) };
    let same_text_styles = num.iter().any(|(a, _)| num.iter().any(|(b, _)| a != b && a.text == b.text));
    if same_text_styles {
        acc.distinct(&case.par);
    }
    // (a) scanner rules
    let modes = match scanner_text(bound.src.scanner_body.as_ref().unwrap()) {
        Ok(m) => m,
        Err(e) => {
            out.push(vio("machinery_scanner_text", format!("{short}: {e}"), case, json!({})));
            return out;
        }
    };
    let err_idx = bound.tnames.len() - 1;
    if bound.tnames.len() != num.len() + 6 {
        out.push(vio("terminal_name_table_size", format!("{short}: TERMINAL_NAMES has {} entries for {} terminals", bound.tnames.len(), num.len()), case, json!({})));
    }
    for (mi, m) in modes.iter().enumerate() {
        let user: Vec<&(String, Option<(bool, String)>, usize)> = m.tokens.iter().filter(|t| t.2 >= 5 && t.2 != err_idx).collect();
        let expect: Vec<(String, Option<(bool, String)>, usize)> = num
            .iter()
            .enumerate()
            .filter(|(_, (_, st))| st.contains(&mi))
            .map(|(i, (id, _))| (expand(&id.text, id.raw), id.la.as_ref().map(|(p, t, r)| (*p, expand(t, *r))), i + 5))
            .collect();
        let got: Vec<(String, Option<(bool, String)>, usize)> = user.iter().map(|t| (*t).clone()).collect();
        if got != expect {
            out.push(vio(
                "scanner_rules_disagree_with_terminal_numbering",
                format!("{short}: scanner mode {} declares {:?}, terminal numbering by first occurrence demands {:?}", m.name, got, expect),
                case,
                json!({"mode": m.name}),
            ));
        }
    }
    // (c) production tables
    match &bound.tables {
        Tables::Ll { prods, las, .. } => {
            for (pi, p) in g.gc.cfg.pr.iter().enumerate() {
                let want: Vec<usize> = p.get_r().iter().filter_map(|s| ident_of(s).and_then(|(id, _)| number_of(&id))).collect();
                let got: Vec<usize> = prods[pi].production.iter().rev().filter_map(|s| if let parol_runtime::parser::ParseType::T(t) = s { Some(*t as usize) } else { None }).collect();
                if want != got {
                    out.push(vio(
                        "production_table_uses_other_terminal_numbers",
                        format!("{short}: production {pi} `{p}` has terminal numbers {got:?} in PRODUCTIONS, the scanner numbers them {want:?}"),
                        case,
                        json!({"production": pi}),
                    ));
                }
            }
            // (b) lookahead automata only use numbers of terminals (or EOI)
            for (ni, la) in las.iter().enumerate() {
                for t in la.transitions {
                    if t.1 != 0 && !((5..5 + num.len()).contains(&(t.1 as usize))) {
                        out.push(vio("automaton_uses_unknown_terminal", format!("{short}: automaton {ni} uses terminal {}", t.1), case, json!({})));
                    }
                }
            }
        }
        Tables::Lr { table, .. } => {
            for (si, s) in table.states.iter().enumerate() {
                for (t, _) in s.actions {
                    if *t != 0 && !((5..5 + num.len()).contains(&(*t as usize))) {
                        out.push(vio("lr_table_uses_unknown_terminal", format!("{short}: state {si} uses terminal {t}"), case, json!({})));
                    }
                }
            }
        }
    }
    // (f) export model
    let model = match &g.analysis {
        Analysis::Ll(d) => catch(|| parol::generate_parser_export_model(&g.gc, d)),
        Analysis::Lr(t, _) => catch(|| parol::generate_lalr1_parser_export_model(&g.gc, t)),
    };
    match model {
        Ok(Ok(m)) => {
            let mj = serde_json::to_value(&m).unwrap();
            for (pi, p) in g.gc.cfg.pr.iter().enumerate() {
                let want: Vec<usize> = p.get_r().iter().filter_map(|s| ident_of(s).and_then(|(id, _)| number_of(&id))).collect();
                let got: Vec<usize> = mj["productions"][pi]["rhs"]
                    .as_array()
                    .map(|a| a.iter().filter_map(|s| s.get("Terminal").map(|t| t["index"].as_u64().unwrap() as usize)).collect())
                    .unwrap_or_default();
                if want != got {
                    out.push(vio(
                        "export_model_uses_other_terminal_numbers",
                        format!("{short}: production {pi} `{p}` has terminal numbers {got:?} in the export model, the scanner numbers them {want:?}"),
                        case,
                        json!({"production": pi}),
                    ));
                }
            }
            let terms = mj["scanner"]["terminals"].as_array().cloned().unwrap_or_default();
            for (i, (id, _)) in num.iter().enumerate() {
                let t = terms.iter().find(|t| t["index"].as_u64() == Some((i + 5) as u64));
                let ok = t.is_some_and(|t| t["pattern"].as_str() == Some(&id.text) && (t["kind"].as_str() == Some("Raw")) == id.raw);
                if !ok {
                    out.push(vio("export_model_terminal_table_differs", format!("{short}: terminal {} is {:?} in the export model, expected {:?}", i + 5, t, id), case, json!({})));
                }
            }
        }
        Ok(Err(e)) => out.push(vio("export_model_fails", format!("{short}: {}", crate::bind::fmt_err(&e)), case, json!({}))),
        Err(p) => out.push(vio("export_model_panics", format!("{short}: {}", panic_site(&p)), case, json!({}))),
    }
    // (e) skip lists and transitions refer to terminals valid in that state
    for (mi, sk) in bound.skips.iter().enumerate() {
        for t in *sk {
            let ok = num.get((*t as usize).wrapping_sub(5)).is_some_and(|(_, st)| st.contains(&mi));
            if !ok {
                out.push(vio("skip_list_refers_to_foreign_terminal", format!("{short}: state {mi} skips terminal {t} which is not a terminal of that state"), case, json!({})));
            }
        }
    }
    for (mi, m) in modes.iter().enumerate() {
        for (t, _) in &m.on {
            let ok = num.get(t.wrapping_sub(5)).is_some_and(|(_, st)| st.contains(&mi));
            if !ok {
                out.push(vio("transition_refers_to_foreign_terminal", format!("{short}: mode {} switches on terminal {t} which is not a terminal of that state", m.name), case, json!({})));
            }
        }
    }
    acc.fallback(|| json!({"grammar": short}));
    if acc.want_sample() && same_text_styles {
        acc.sample(json!({"grammar": short, "terminal_numbering": num.iter().enumerate().map(|(i, (id, st))| format!("{} = {:?} raw={} la={:?} states={:?}", i + 5, id.text, id.raw, id.la, st)).collect::<Vec<_>>()}));
    }
    out
}


// --- C18: the analysis results (automata / LR table) against a reference that tells terminals apart ---

fn strings_over16(alpha: &[u16], n: usize) -> Vec<Vec<u16>> {
    let mut res = vec![vec![]];
    let mut layer: Vec<Vec<u16>> = vec![vec![]];
    for _ in 0..n {
        let mut nx = vec![];
        for w in &layer {
            for a in alpha {
                let mut z = w.clone();
                z.push(*a);
                nx.push(z);
            }
        }
        res.extend(nx.iter().cloned());
        layer = nx;
    }
    res
}

fn transformed_only(par: &str) -> Option<parol::GrammarConfig> {
    let mut gc = parol::obtain_grammar_config_from_string(par, false).ok()?;
    let ignored: std::collections::BTreeSet<String> = gc.unreachable_non_terminals_to_ignore.iter().cloned().collect();
    let t = parol::generators::grammar_trans::check_and_transform_grammar_with_ignored(&gc.cfg, gc.grammar_type, &ignored).ok()?;
    gc.update_cfg(t);
    Some(gc)
}

/// Some(reason) if the reference, working on terminal identities (text, raw-or-regex class,
/// lookahead), finds the transformed grammar LL(k<=K) / LALR(1)
fn identity_says_acceptable(par: &str, k_limit: usize) -> Option<String> {
    use crate::refs::*;
    let gc = catch(|| transformed_only(par)).ok()??;
    let rb = RBnf::of(&gc.cfg);
    match gc.grammar_type {
        parol::parser::parol_grammar::GrammarType::LLK => {
            let mk = minimal_ks(&rb, k_limit);
            if mk.iter().all(|m| m.is_some()) {
                return Some(format!("reference: strong LL(k) with k per non-terminal {:?}", mk.iter().map(|m| m.unwrap()).collect::<Vec<_>>()));
            }
            None
        }
        _ => {
            let rr = crate::refs_lr::lalr1_conflicts(&rb);
            if rr.conflicts.is_empty() {
                return Some("reference LALR(1) construction finds no conflict".into());
            }
            None
        }
    }
}

fn identity_analysis(g: &Generated, bound: &Bound, k_limit: usize) -> Option<(&'static str, String)> {
    use crate::refs::*;
    let rb = RBnf::of(&g.gc.cfg);
    let mut alpha: Vec<u16> = rb.terminals();
    match (&bound.tables, &g.analysis) {
        (Tables::Ll { las, .. }, Analysis::Ll(_)) => {
            let mk = minimal_ks(&rb, k_limit);
            if mk.iter().any(|m| m.is_none()) {
                return Some(("analysis_accepts_grammar_that_is_not_ll_when_terminals_are_told_apart", format!("reference minimal k per non-terminal: {mk:?}")));
            }
            alpha.push(END);
            let mut la_by_k: std::collections::BTreeMap<usize, Vec<Set>> = Default::default();
            for (ni, n) in rb.nts.iter().enumerate() {
                let k = mk[ni].unwrap();
                let la = la_by_k.entry(k).or_insert_with(|| la_sets(&rb, k)).clone();
                let ps = prods_of(&rb, ni);
                if ps.len() < 2 {
                    continue;
                }
                let trans = las[ni].transitions;
                for w in strings_over16(&alpha, k + 1) {
                    if w.iter().rev().skip(1).any(|t| *t == END) {
                        continue;
                    }
                    let expect: Option<usize> = ps.iter().copied().find(|p| la[*p].contains(&w));
                    // read the automaton as a DFA from state 0
                    let mut st = 0usize;
                    let mut prod: i64 = las[ni].prod0 as i64;
                    let mut dead = false;
                    for t in &w {
                        match trans.iter().find(|tr| tr.0 == st && tr.1 == *t) {
                            Some(tr) => {
                                st = tr.2;
                                prod = tr.3 as i64;
                            }
                            None => {
                                dead = true;
                                break;
                            }
                        }
                    }
                    let got = if dead || prod < 0 { None } else { Some(prod as usize) };
                    if got != expect {
                        return Some(("lookahead_automaton_uses_other_terminal_numbers", format!("non-terminal {n} (k={k}): token string {w:?} reaches production {got:?}, the lookahead sets over told-apart terminals say {expect:?}")));
                    }
                }
            }
            None
        }
        (Tables::Lr { table, prods }, Analysis::Lr(_, nconf)) => {
            if *nconf > 0 {
                return None;
            }
            // token-level run of the generated table against the language over told-apart terminals
            let n = 4usize;
            let first = first_k(&rb, n + 1);
            let lang: std::collections::BTreeSet<Vec<u16>> = first.nts[rb.start].iter().filter(|w| w.len() <= n && !w.contains(&END)).cloned().collect();
            for w in strings_over16(&alpha, n) {
                let mut stack: Vec<usize> = vec![0];
                let mut i = 0usize;
                let mut steps = 0usize;
                let verdict = loop {
                    steps += 1;
                    if steps > 10_000 {
                        break None;
                    }
                    let t = w.get(i).copied().unwrap_or(END);
                    match table.action(*stack.last().unwrap(), t) {
                        None => break Some(false),
                        Some(parol_runtime::lr_parser::LRAction::Shift(s)) => {
                            stack.push(*s);
                            i += 1;
                        }
                        Some(parol_runtime::lr_parser::LRAction::Reduce(nt, p)) => {
                            let len = prods[*p].len;
                            if stack.len() <= len {
                                break Some(false);
                            }
                            stack.truncate(stack.len() - len);
                            match table.goto(*stack.last().unwrap(), *nt) {
                                Some(s) => stack.push(s),
                                None => break Some(false),
                            }
                        }
                        Some(parol_runtime::lr_parser::LRAction::Accept) => break Some(i == w.len()),
                    }
                };
                let Some(v) = verdict else { continue };
                if v != lang.contains(&w) {
                    return Some(("lr_table_uses_other_terminal_numbers", format!("token string {w:?}: the generated table {} it, the grammar over told-apart terminals {}", if v { "accepts" } else { "rejects" }, if v { "does not derive it" } else { "derives it" })));
                }
            }
            None
        }
        _ => None,
    }
}

// ---------------------------------------------------------------------------------------------
// C21
// ---------------------------------------------------------------------------------------------

fn eval_c21(case: &Case, acc: &Acc) -> Vec<Violation> {
    let mut out = vec![];
    let g: Generated = match catch(|| pipeline(&case.par, case.k, &GenCfg::default())) {
        Ok(Ok(g)) => g,
        _ => {
            acc.outcome("not_accepted");
            return out;
        }
    };
    acc.outcome("accepted");
    acc.eval(1);
    acc.distinct(&case.par);
    if acc.want_sample() && (case.par.contains("?=") || case.par.contains("%scanner")) {
        acc.sample(json!({"grammar": case.par.replace('\n', " "), "compared": "generated source tables / export model / analysis results"}));
    }
    acc.fallback(|| json!({"grammar": case.par.replace('\n', " ")}));
    let short = case.par.replace('\n', " ");
    let bound: Bound = match bind(&g.parser_src) {
        Ok(b) => b,
        Err(m) => {
            out.push(vio("generated_source_not_readable", format!("{short}: {m}"), case, json!({})));
            return out;
        }
    };
    let mut bad = |class: &str, what: String| out.push(vio(class, format!("{short}: {what}"), case, json!({})));
    let cfg = &g.gc.cfg;
    let nts: Vec<String> = cfg.get_non_terminal_set().into_iter().collect();
    let nt_idx = |n: &str| nts.iter().position(|x| x == n);
    // names
    if bound.ntnames.iter().map(|s| s.to_string()).collect::<Vec<_>>() != nts {
        bad("non_terminal_names_differ", format!("NON_TERMINALS {:?} vs analysis {:?}", bound.ntnames, nts));
    }
    let tn = parol::generators::generate_terminal_names(&g.gc);
    if bound.tnames.iter().map(|s| s.to_string()).collect::<Vec<_>>() != tn {
        bad("terminal_names_differ", format!("TERMINAL_NAMES {:?} vs generate_terminal_names {:?}", bound.tnames, tn));
    }
    if Some(bound.start) != nt_idx(&cfg.st) {
        bad("start_symbol_index_differs", format!("parser constructed with start index {}, start symbol {} has index {:?}", bound.start, cfg.st, nt_idx(&cfg.st)));
    }
    let ti = cfg.get_terminal_index_function();
    use parol::grammar::cfg::TerminalIndexFn;
    let n_term = bound.tnames.len();
    let model = match &g.analysis {
        Analysis::Ll(d) => catch(|| parol::generate_parser_export_model(&g.gc, d)),
        Analysis::Lr(t, _) => catch(|| parol::generate_lalr1_parser_export_model(&g.gc, t)),
    };
    let mj = match model {
        Ok(Ok(m)) => serde_json::to_value(&m).unwrap(),
        _ => {
            bad("export_model_fails", "export model generation failed or panicked".into());
            return out;
        }
    };
    if mj["non_terminal_names"].as_array().map(|a| a.iter().map(|x| x.as_str().unwrap_or("").to_string()).collect::<Vec<_>>()) != Some(nts.clone()) {
        bad("model_non_terminal_names_differ", "export model non_terminal_names differ".into());
    }
    if mj["start_symbol_index"].as_u64().map(|x| x as usize) != nt_idx(&cfg.st) {
        bad("model_start_symbol_index_differs", format!("{}", mj["start_symbol_index"]));
    }
    // productions
    #[derive(PartialEq, Debug)]
    enum S {
        T(usize),
        N(usize),
    }
    let want_prods: Vec<(usize, Vec<S>)> = cfg
        .pr
        .iter()
        .map(|p| {
            (
                nt_idx(p.get_n_str()).unwrap_or(usize::MAX),
                p.get_r()
                    .iter()
                    .filter_map(|s| match s {
                        parol::Symbol::N(n, ..) => Some(S::N(nt_idx(n).unwrap_or(usize::MAX))),
                        parol::Symbol::T(parol::Terminal::Trm(t, k, _, _, _, _, l)) => Some(S::T(ti.terminal_index(t, *k, l) as usize)),
                        _ => None,
                    })
                    .collect(),
            )
        })
        .collect();
    let model_prods: Vec<(usize, Vec<S>)> = mj["productions"]
        .as_array()
        .map(|a| {
            a.iter()
                .map(|p| {
                    (
                        p["lhs_index"].as_u64().unwrap_or(u64::MAX) as usize,
                        p["rhs"]
                            .as_array()
                            .map(|r| {
                                r.iter()
                                    .map(|s| if let Some(n) = s.get("NonTerminal") { S::N(n.as_u64().unwrap() as usize) } else { S::T(s["Terminal"]["index"].as_u64().unwrap() as usize) })
                                    .collect()
                            })
                            .unwrap_or_default(),
                    )
                })
                .collect()
        })
        .unwrap_or_default();
    if model_prods != want_prods {
        let i = model_prods.iter().zip(want_prods.iter()).position(|(a, b)| a != b).unwrap_or(0);
        bad("model_productions_differ", format!("production {i}: export model {:?}, grammar {:?}", model_prods.get(i), want_prods.get(i)));
    }
    match (&bound.tables, &g.analysis) {
        (Tables::Ll { las, prods, max_k }, Analysis::Ll(dfas)) => {
            let src_prods: Vec<(usize, Vec<S>)> = prods
                .iter()
                .map(|p| {
                    (
                        p.lhs,
                        p.production
                            .iter()
                            .rev()
                            .map(|s| match s {
                                parol_runtime::parser::ParseType::N(n) => S::N(*n),
                                parol_runtime::parser::ParseType::T(t) => S::T(*t as usize),
                                _ => S::N(usize::MAX),
                            })
                            .collect(),
                    )
                })
                .collect();
            if src_prods != want_prods {
                let i = src_prods.iter().zip(want_prods.iter()).position(|(a, b)| a != b).unwrap_or(0);
                bad("source_productions_differ", format!("production {i}: PRODUCTIONS {:?}, grammar {:?}", src_prods.get(i), want_prods.get(i)));
            }
            for (pi, p) in prods.iter().enumerate() {
                let attr = format!("{:?}", cfg.pr[pi].2);
                let want_push = attr.contains("AddToCollection");
                if p.is_push_production != want_push {
                    bad("push_flag_differs", format!("production {pi}: is_push_production={} but production attribute is {attr}", p.is_push_production));
                }
            }
            if las.len() != nts.len() {
                bad("automata_count_differs", format!("{} automata for {} non-terminals", las.len(), nts.len()));
            }
            let mut kmax = 0;
            for (ni, n) in nts.iter().enumerate() {
                let Some(d) = dfas.get(n) else {
                    bad("automaton_missing_in_analysis", n.clone());
                    continue;
                };
                let Some(la) = las.get(ni) else { continue };
                kmax = kmax.max(la.k);
                // the source automaton and the model automaton are the same table
                let ma = &mj["lookahead_automata"][ni];
                let mt: Vec<(usize, u16, usize, i32)> = ma["transitions"]
                    .as_array()
                    .map(|a| a.iter().map(|t| (t["from_state"].as_u64().unwrap() as usize, t["term"].as_u64().unwrap() as u16, t["to_state"].as_u64().unwrap() as usize, t["prod_num"].as_i64().unwrap() as i32)).collect())
                    .unwrap_or_default();
                let st: Vec<(usize, u16, usize, i32)> = la.transitions.iter().map(|t| (t.0, t.1, t.2, t.3 as i32)).collect();
                if mt != st || ma["prod0"].as_i64() != Some(la.prod0 as i64) || ma["k"].as_u64() != Some(la.k as u64) {
                    bad("automaton_differs_between_source_and_model", format!("non-terminal {n}: source {st:?} prod0 {} k {}, model {}", la.prod0, la.k, ma));
                }
                if la.k != d.k {
                    bad("automaton_k_differs_from_analysis", format!("non-terminal {n}: generated k {} analysis k {}", la.k, d.k));
                }
                // language equality of the source automaton and the analysis automaton: all strings
                // over the used terminals up to k
                let mut alpha: Vec<u16> = st.iter().map(|t| t.1).collect();
                for m in d.transitions.values() {
                    alpha.extend(m.keys().copied());
                }
                alpha.sort();
                alpha.dedup();
                let mut layer: Vec<(Vec<u16>, Option<usize>, Option<usize>)> = vec![(vec![], Some(0), Some(0))];
                for _ in 0..=d.k.max(la.k) {
                    let mut nx = vec![];
                    for (w, s1, s2) in &layer {
                        let p1 = s1.map(|s| if s == 0 && w.is_empty() { la.prod0 as i32 } else { st.iter().find(|t| t.2 == s).map(|t| t.3).unwrap_or(-1) });
                        let p2 = s2.map(|s| d.states[s].prod_num);
                        let a1 = p1.filter(|p| *p >= 0);
                        let a2 = p2.filter(|p| *p >= 0);
                        if a1 != a2 {
                            bad("automaton_language_differs_from_analysis", format!("non-terminal {n}: token string {w:?} predicts {a1:?} in the generated automaton, {a2:?} in the analysis automaton"));
                            break;
                        }
                        for a in &alpha {
                            let n1 = s1.and_then(|s| st.iter().find(|t| t.0 == s && t.1 == *a).map(|t| t.2));
                            let n2 = s2.and_then(|s| d.transitions.get(&s).and_then(|m| m.get(a)).copied());
                            if n1.is_some() || n2.is_some() {
                                let mut w2 = w.clone();
                                w2.push(*a);
                                nx.push((w2, n1, n2));
                            }
                        }
                    }
                    layer = nx;
                }
                for t in &st {
                    if (t.1 as usize) >= n_term || t.3 >= cfg.pr.len() as i32 || (t.3 >= 0 && nt_idx(cfg.pr[t.3 as usize].get_n_str()) != Some(ni)) {
                        bad("automaton_index_out_of_range", format!("non-terminal {n}: transition {t:?}"));
                    }
                }
            }
            if *max_k != kmax.max(g.max_k) && *max_k != kmax {
                bad("max_k_differs", format!("MAX_K {} vs automata {kmax}", max_k));
            }
        }
        (Tables::Lr { table, prods }, Analysis::Lr(at, _)) => {
            for (pi, p) in prods.iter().enumerate() {
                let (l, r) = &want_prods[pi];
                if p.lhs != *l || p.len != r.len() {
                    bad("source_productions_differ", format!("production {pi}: LRProduction lhs {} len {}, grammar lhs {l} len {}", p.lhs, p.len, r.len()));
                }
            }
            if table.states.len() != at.states.len() {
                bad("lr_state_count_differs", format!("{} vs {}", table.states.len(), at.states.len()));
            }
            for (si, (s, a)) in table.states.iter().zip(at.states.iter()).enumerate() {
                let got: BTreeMap<u16, String> = s.actions.iter().map(|(t, ai)| (*t, table.actions.get(*ai).map(|x| format!("{x:?}")).unwrap_or("OUT_OF_RANGE".into()))).collect();
                let want: BTreeMap<u16, String> = a.actions.iter().map(|(t, x)| (*t, format!("{x:?}"))).collect();
                if got != want {
                    bad("lr_actions_differ", format!("state {si}: source {got:?}, analysis {want:?}"));
                }
                let gg: BTreeMap<usize, usize> = s.gotos.iter().cloned().collect();
                let wg: BTreeMap<usize, usize> = a.gotos.iter().map(|(k, v)| (*k, *v)).collect();
                if gg != wg {
                    bad("lr_gotos_differ", format!("state {si}: source {gg:?}, analysis {wg:?}"));
                }
                if s.actions.iter().any(|(t, _)| *t as usize >= n_term) || s.gotos.iter().any(|(n, st)| *n >= nts.len() || *st >= table.states.len()) {
                    bad("lr_index_out_of_range", format!("state {si}"));
                }
                // export model
                let ms = &mj["lalr_parse_table"]["states"][si];
                let ma: BTreeMap<u16, String> = ms["actions"]
                    .as_array()
                    .map(|x| {
                        x.iter()
                            .map(|p| {
                                let ai = p[1].as_u64().unwrap() as usize;
                                let act = &mj["lalr_parse_table"]["actions"][ai];
                                let s = if act.is_string() {
                                    "Accept".to_string()
                                } else if let Some(v) = act.get("Shift") {
                                    format!("Shift({})", v)
                                } else {
                                    format!("Reduce({}, {})", act["Reduce"][0], act["Reduce"][1])
                                };
                                (p[0].as_u64().unwrap() as u16, s)
                            })
                            .collect()
                    })
                    .unwrap_or_default();
                if ma != want {
                    bad("lr_model_actions_differ", format!("state {si}: model {ma:?}, analysis {want:?}"));
                }
            }
        }
        _ => bad("algorithm_mismatch", "generated parser type differs from the analysis".into()),
    }
    // scanner: source text vs export model vs scanner configuration
    if let Ok(modes) = scanner_text(bound.src.scanner_body.as_ref().unwrap()) {
        let ms = mj["scanner"]["scanner_states"].as_array().cloned().unwrap_or_default();
        if modes.len() != g.gc.scanner_configurations.len() || ms.len() != modes.len() {
            bad("scanner_state_count_differs", format!("{} modes in source, {} in model, {} configurations", modes.len(), ms.len(), g.gc.scanner_configurations.len()));
        }
        for (mi, (m, sc)) in modes.iter().zip(g.gc.scanner_configurations.iter()).enumerate() {
            check_mode(m, sc, mi, &mj, &bound, &mut bad);
        }
    }
    out
}

fn check_mode(m: &ModeText, sc: &parol::ScannerConfig, mi: usize, mj: &Value, bound: &Bound, bad: &mut impl FnMut(&str, String)) {
    if m.name != sc.scanner_name {
        bad("scanner_mode_name_differs", format!("mode {mi}: {} vs {}", m.name, sc.scanner_name));
    }
    let has = |ty: usize| m.tokens.iter().any(|t| t.2 == ty);
    if has(1) != sc.auto_newline || has(2) != sc.auto_ws || has(3) == sc.line_comments.is_empty() || has(4) == sc.block_comments.is_empty() {
        bad("scanner_builtin_rules_differ", format!("mode {}: rules {:?} vs config auto_newline={} auto_ws={} line_comments={:?} block_comments={:?}", m.name, m.tokens.iter().map(|t| t.2).collect::<Vec<_>>(), sc.auto_newline, sc.auto_ws, sc.line_comments, sc.block_comments));
    }
    let err = bound.tnames.len() - 1;
    if has(err) == sc.allow_unmatched {
        bad("scanner_error_rule_differs", format!("mode {}: error rule present={} allow_unmatched={}", m.name, has(err), sc.allow_unmatched));
    }
    let want_on: Vec<(usize, String)> = sc.transitions.iter().map(|(t, s)| (*t as usize, format!("{s}"))).collect();
    let got_on: Vec<(usize, String)> = m.on.iter().map(|(t, s)| (*t, s.trim().to_string())).collect();
    if want_on != got_on {
        bad("scanner_transitions_differ", format!("mode {}: source {:?}, configuration {:?}", m.name, got_on, want_on));
    }
    // the export model's transitions: kind and target
    let model_on: Vec<(usize, String)> = mj["scanner"]["scanner_states"][mi]["transitions"]
        .as_array()
        .map(|a| {
            a.iter()
                .map(|x| {
                    let t = x["terminal_index"].as_u64().unwrap_or(u64::MAX) as usize;
                    let name = x["target_scanner_name"].as_str().unwrap_or("");
                    let by_index = x["target_scanner_state"].as_u64().and_then(|i| mj["scanner"]["scanner_states"][i as usize]["scanner_name"].as_str());
                    let d = match x["kind"].as_str().unwrap_or("") {
                        "Enter" => format!("enter {name}"),
                        "Push" => format!("push {name}"),
                        "Pop" => "pop".to_string(),
                        k => format!("?{k}"),
                    };
                    if x["kind"].as_str() != Some("Pop") && by_index != Some(name) {
                        return (t, format!("{d} (target index names {by_index:?})"));
                    }
                    (t, d)
                })
                .collect()
        })
        .unwrap_or_default();
    if model_on != want_on {
        bad("model_scanner_transitions_differ", format!("mode {}: model {:?}, configuration {:?}", m.name, model_on, want_on));
    }
    // every terminal the model places in this mode: pattern and lookahead as in the source rule of that number
    for t in mj["scanner"]["terminals"].as_array().cloned().unwrap_or_default() {
        if !t["scanner_states"].as_array().is_some_and(|a| a.iter().any(|x| x.as_u64() == Some(mi as u64))) {
            continue;
        }
        let idx = t["index"].as_u64().unwrap_or(u64::MAX) as usize;
        let model_rule = (
            t["expanded_pattern"].as_str().unwrap_or("").to_string(),
            if t["lookahead"].is_null() { None } else { Some((t["lookahead"]["is_positive"].as_bool().unwrap_or(false), t["lookahead"]["expanded_pattern"].as_str().unwrap_or("").to_string())) },
        );
        match m.tokens.iter().find(|r| r.2 == idx) {
            None => bad("model_terminal_missing_in_source_mode", format!("mode {}: model terminal {idx} has no rule in the generated scanner", m.name)),
            Some(r) => {
                if (r.0.clone(), r.1.clone()) != model_rule {
                    bad("model_terminal_pattern_differs", format!("mode {}: terminal {idx}: source rule ({:?}, {:?}), model {:?}", m.name, r.0, r.1, model_rule));
                }
            }
        }
    }
    // and the other way round: every user terminal rule of the source mode is in the model with this mode
    let err_ty = bound.tnames.len() - 1;
    for r in m.tokens.iter().filter(|r| r.2 >= 5 && r.2 != err_ty) {
        let listed = mj["scanner"]["terminals"].as_array().is_some_and(|a| a.iter().any(|t| t["index"].as_u64() == Some(r.2 as u64) && t["scanner_states"].as_array().is_some_and(|st| st.iter().any(|x| x.as_u64() == Some(mi as u64)))));
        if !listed {
            bad("source_terminal_missing_in_model_mode", format!("mode {}: generated scanner rule {} is not listed for this state in the model", m.name, r.2));
        }
    }
    let ms0 = &mj["scanner"]["scanner_states"][mi];
    let model_lc: Vec<String> = ms0["line_comments"].as_array().map(|a| a.iter().map(|x| x.as_str().unwrap_or("").to_string()).collect()).unwrap_or_default();
    let model_bc: Vec<(String, String)> = ms0["block_comments"].as_array().map(|a| a.iter().map(|x| (x[0].as_str().unwrap_or("").to_string(), x[1].as_str().unwrap_or("").to_string())).collect()).unwrap_or_default();
    if model_lc != sc.line_comments || model_bc != sc.block_comments || ms0["scanner_name"].as_str() != Some(&sc.scanner_name) || ms0["scanner_state"].as_u64() != Some(mi as u64) {
        bad("model_scanner_state_differs", format!("mode {}: comments / name / index: model {}", m.name, ms0));
    }
    let skips: Vec<u16> = bound.skips.get(mi).map(|s| s.to_vec()).unwrap_or_default();
    if skips != sc.skip_tokens {
        bad("skip_list_differs", format!("mode {}: SKIP_TOKENS_BY_SCANNER_STATE {:?}, configuration {:?}", m.name, skips, sc.skip_tokens));
    }
    let ms = &mj["scanner"]["scanner_states"][mi];
    if ms["allow_unmatched"].as_bool() != Some(sc.allow_unmatched)
        || ms["auto_newline"].as_bool() != Some(sc.auto_newline)
        || ms["auto_ws"].as_bool() != Some(sc.auto_ws)
        || ms["skip_tokens"].as_array().map(|a| a.iter().map(|x| x.as_u64().unwrap() as u16).collect::<Vec<_>>()) != Some(sc.skip_tokens.clone())
        || ms["transitions"].as_array().map(|a| a.iter().map(|x| x["terminal_index"].as_u64().unwrap() as usize).collect::<Vec<_>>()) != Some(sc.transitions.iter().map(|t| t.0 as usize).collect::<Vec<_>>())
    {
        bad("model_scanner_state_differs", format!("mode {}: model {}", m.name, ms));
    }
}


// ---------------------------------------------------------------------------------------------
// C25
// ---------------------------------------------------------------------------------------------

fn c25_grammars(tier: Tier) -> Vec<String> {
    let mut out = vec![];
    let decos = ["", "^", "@m", ": UT", "@m : crate::x::Y"];
    let bodies: Vec<(&str, usize)> = vec![
        ("S: {0} {1};\nA: 'x'{2};", 3),
        ("S: {0} | {1} A{2};\nA: 'x' | ;", 3),
        ("S: [ {0} ] {{ {1} }} A{2};\nA: /x+/;", 3),
        ("S: ( {0} | {1} ) A{2};\nA: \"x\" ?= 'y';", 3),
    ];
    let terms = ["'a'", "\"b\"", "/c/", "'a' ?= 'b'", "\"d\" ?! /e/"];
    let headers: Vec<String> = {
        let mut h = vec![String::new()];
        h.push("%title \"T\"\n%comment \"C c\"\n".into());
        h.push("%user_type UT = crate::m::T\n%nt_type A = crate::m::NA\n".into());
        h.push("%t_type crate::m::TT\n".into());
        h.push("%line_comment '//'\n%block_comment '/*' '*/'\n".into());
        h.push("%line_comment \"#\"\n%line_comment ';'\n%block_comment \"\\{\" \"\\}\"\n".into());
        h.push("%auto_newline_off\n".into());
        h.push("%auto_ws_off\n".into());
        h.push("%allow_unmatched\n".into());
        h.push("%auto_newline_off\n%auto_ws_off\n%allow_unmatched\n".into());
        h
    };
    for lalr in [false, true] {
        let gt = if lalr { "%grammar_type 'LALR(1)'\n" } else { "" };
        for (hi, h) in headers.iter().enumerate() {
            for (bi, (body, _)) in bodies.iter().enumerate() {
                for (ti, t0) in terms.iter().enumerate() {
                    for (tj, t1) in terms.iter().enumerate() {
                        if ti == tj {
                            continue;
                        }
                        for (d0, de0) in decos.iter().enumerate() {
                            for (d1, de1) in decos.iter().enumerate() {
                                for (d2, de2) in decos.iter().enumerate() {
                                    if tier == Tier::Quick && (hi + bi + ti + tj + d0 + d1 * 2 + d2 * 3) % 7 != 0 {
                                        continue;
                                    }
                                    if tier == Tier::Thorough && (hi + bi + ti + tj + d0 + d1 * 2 + d2 * 3) % 2 != 0 {
                                        continue;
                                    }
                                    // a lookahead terminal needs a blank before decorations
                                    let b = body
                                        .replace("{0}", &format!("{t0} {de0}"))
                                        .replace("{1}", &format!("{t1} {de1}"))
                                        .replace("{2}", &format!(" {de2}"))
                                        .replace("{{", "{")
                                        .replace("}}", "}");
                                    let needs_ut = b.contains(": UT") && !h.contains("%user_type UT");
                                    let hh = if needs_ut { format!("{h}%user_type UT = crate::m::T\n") } else { h.clone() };
                                    out.push(format!("%start S\n{gt}{hh}%%\n{b}\n"));
                                }
                            }
                        }
                    }
                }
            }
        }
        // scanner states with every directive inside
        for inner in ["%auto_newline_off", "%auto_ws_off", "%allow_unmatched", "%line_comment '#'", "%block_comment '(' ')'", "%auto_newline_off\n  %allow_unmatched\n  %line_comment '//'"] {
            for sw0 in ["%enter X", "%push X"] {
                for sw1 in ["%enter INITIAL", "%pop", "%push INITIAL"] {
                    for allow0 in ["", "%allow_unmatched\n"] {
                        out.push(format!("%start S\n{gt}{allow0}%on Q %enter X\n%skip W\n%scanner X {{\n  {inner}\n  %on Q {sw1}\n  %skip V\n}}\n%%\nS: {{ A }};\nA: 'a' | Q B Q;\nB: <X>'b';\nQ: <INITIAL, X>'q';\nW: 'w';\nV: <X>'v';\n").replace("%on Q %enter X", &format!("%on Q {sw0}")));
                    }
                }
            }
        }
    }
    out
}

fn canon_symbol(s: &parol::Symbol) -> String {
    match s {
        parol::Symbol::N(n, a, u, m) => format!("N({n}, clipped={}, user_type={:?}, member={:?})", *a == parol::SymbolAttribute::Clipped, u.as_ref().map(|u| u.to_string()), m),
        parol::Symbol::T(parol::Terminal::Trm(t, k, st, a, u, m, l)) => format!(
            "T({t:?}, raw={}, states={:?}, clipped={}, user_type={:?}, member={:?}, la={:?})",
            matches!(k, parol::TerminalKind::Raw),
            st,
            *a == parol::SymbolAttribute::Clipped,
            u.as_ref().map(|u| u.to_string()),
            m,
            l.as_ref().map(|l| (l.is_positive, l.pattern.clone(), matches!(l.kind, parol::TerminalKind::Raw)))
        ),
        other => format!("{other:?}"),
    }
}

fn canon_gc(gc: &parol::GrammarConfig) -> Vec<(String, String)> {
    let mut v = vec![];
    v.push(("start symbol".to_string(), gc.cfg.st.clone()));
    v.push(("grammar type".to_string(), format!("{:?}", gc.grammar_type)));
    for (i, p) in gc.cfg.pr.iter().enumerate() {
        v.push((format!("production {i}"), format!("{} : {}", canon_symbol(&p.0), p.1.iter().map(canon_symbol).collect::<Vec<_>>().join(" "))));
    }
    v.push(("title".into(), format!("{:?}", gc.title)));
    v.push(("comment".into(), format!("{:?}", gc.comment)));
    v.push(("user types".into(), format!("{:?}", gc.user_type_defs)));
    v.push(("nt types".into(), format!("{:?}", gc.nt_type_defs)));
    v.push(("t type".into(), format!("{:?}", gc.t_type_def)));
    for (i, sc) in gc.scanner_configurations.iter().enumerate() {
        v.push((format!("scanner state {i} name"), sc.scanner_name.clone()));
        v.push((format!("scanner state {i} line comments"), format!("{:?}", sc.line_comments)));
        v.push((format!("scanner state {i} block comments"), format!("{:?}", sc.block_comments)));
        v.push((format!("scanner state {i} auto_newline"), format!("{}", sc.auto_newline)));
        v.push((format!("scanner state {i} auto_ws"), format!("{}", sc.auto_ws)));
        v.push((format!("scanner state {i} allow_unmatched"), format!("{}", sc.allow_unmatched)));
        v.push((format!("scanner state {i} skip tokens"), format!("{:?}", sc.skip_tokens)));
        v.push((format!("scanner state {i} transitions"), format!("{:?}", sc.transitions.iter().map(|(t, s)| (*t, format!("{s}"))).collect::<Vec<_>>())));
    }
    v
}

fn eval_c25(case: &Case, acc: &Acc) -> Vec<Violation> {
    let mut out = vec![];
    let short = case.par.replace('\n', " ");
    let Ok(Ok(gc0)) = catch(|| parol::obtain_grammar_config_from_string(&case.par, false)) else {
        acc.outcome("not_accepted");
        return out;
    };
    acc.outcome("accepted");
    let mut stages: Vec<(&str, parol::GrammarConfig)> = vec![("as read", gc0.clone())];
    let ignored: std::collections::BTreeSet<String> = gc0.unreachable_non_terminals_to_ignore.iter().cloned().collect();
    if let Ok(Ok(t)) = catch(|| parol::generators::grammar_trans::check_and_transform_grammar_with_ignored(&gc0.cfg, gc0.grammar_type, &ignored)) {
        let mut g1 = gc0.clone();
        g1.update_cfg(t);
        stages.push(("transformed", g1));
    }
    for (stage, gc) in &stages {
        acc.eval(1);
        let text = match catch(|| parol::render_par_string(gc, false)) {
            Ok(Ok(t)) => t,
            Ok(Err(e)) => {
                out.push(vio("rendering_fails", format!("{short} ({stage}): {}", crate::bind::fmt_err(&e)), case, json!({})));
                continue;
            }
            Err(p) => {
                out.push(vio("rendering_panics", format!("{short} ({stage}): {}", panic_site(&p)), case, json!({})));
                continue;
            }
        };
        let back = match catch(|| parol::obtain_grammar_config_from_string(&text, false)) {
            Ok(Ok(g)) => g,
            Ok(Err(e)) => {
                out.push(vio("rendered_text_not_readable", format!("{short} ({stage}): rendered text is rejected: {} -- text: {}", crate::bind::fmt_err(&e), text.replace('\n', " ")), case, json!({"rendered": text})));
                continue;
            }
            Err(p) => {
                out.push(vio("rendered_text_panics", format!("{short} ({stage}): {}", panic_site(&p)), case, json!({"rendered": text})));
                continue;
            }
        };
        let a = canon_gc(gc);
        let b = canon_gc(&back);
        if a != b {
            let i = a.iter().zip(b.iter()).position(|(x, y)| x != y).unwrap_or(a.len().min(b.len()));
            let (field, x) = a.get(i).cloned().unwrap_or(("<missing>".into(), String::new()));
            let y = b.get(i).cloned().unwrap_or(("<missing>".into(), String::new()));
            let mut fclass: String = field.split(' ').filter(|w| w.parse::<usize>().is_err()).collect::<Vec<_>>().join("_");
            if let Some(pi) = field.strip_prefix("production ").and_then(|x| x.parse::<usize>().ok()) {
                // narrow class: an occurrence type on a non-terminal that also has a %nt_type
                // declaration comes back as the declared type
                if let (Some(p0), Some(p1)) = (gc.cfg.pr.get(pi), back.cfg.pr.get(pi)) {
                    let only_nt_type_override = p0.1.len() == p1.1.len()
                        && p0.1.iter().zip(p1.1.iter()).all(|(x, y)| {
                            canon_symbol(x) == canon_symbol(y)
                                || match (x, y) {
                                    (parol::Symbol::N(n, a, Some(u), m), parol::Symbol::N(n2, a2, Some(u2), m2)) => {
                                        n == n2 && a == a2 && m == m2 && gc.nt_type_defs.iter().any(|(nt, d)| nt == n && *d == u2.to_string() && *d != u.to_string())
                                    }
                                    _ => false,
                                }
                        });
                    if only_nt_type_override {
                        fclass = "occurrence_type_of_non_terminal_with_nt_type_declaration".into();
                    }
                }
            }
            out.push(vio(
                &format!("round_trip_changes_{fclass}"),
                format!("{short} ({stage}): after render + re-read, {field} is {:?} (was {x:?}); rendered: {}", y.1, text.replace('\n', " ")),
                case,
                json!({"rendered": text, "field": field}),
            ));
        }
    }
    acc.distinct(&case.par);
    acc.fallback(|| json!({"grammar": short, "stages": stages.len()}));
    if acc.want_sample() && case.par.contains("%scanner") {
        acc.sample(json!({"grammar": short, "stages": stages.len()}));
    }
    out
}


// ---------------------------------------------------------------------------------------------
// C33
// ---------------------------------------------------------------------------------------------

const NT_MENU: [&str; 26] = [
    "AB", "A_b", "a_b", "Ab", "A1", "A_1", "A", "A0", "type", "Self", "self", "fn", "match", "Token", "Result", "Box", "Vec", "Option", "ASTType", "GramTrait", "GramAuto", "Gram", "Plus", "EndOfInput", "Error", "SList",
];
const T_MENU: [&str; 18] = ["'\\1'", "/\\\\2x/", "'+'", "\"a-b\"", "\"a_b\"", "'1'", "'_'", "'a b'", "/[0-9]+/", "'\\\\'", "'Plus'", "'plus'", "'é'", "'::'", "'type'", "'a' ?= 'b'", "'a' ?! 'b'", "'%'"];
const M_MENU: [&str; 8] = ["type", "self", "m", "M", "r", "a_b", "aB", "fn"];

fn c33_grammars(tier: Tier) -> Vec<String> {
    let mut out = vec![];
    for lalr in [false, true] {
        let gt = if lalr { "%grammar_type 'LALR(1)'\n" } else { "" };
        for (i, x) in NT_MENU.iter().enumerate() {
            for (j, y) in NT_MENU.iter().enumerate() {
                if i == j || (tier == Tier::Quick && lalr && (i + j) % 3 != 0) {
                    continue;
                }
                out.push(format!("%start S\n{gt}%%\nS: {x} {y};\n{x}: 'x';\n{y}: 'y';\n"));
                if (i + j) % 4 == 0 {
                    out.push(format!("%start S\n{gt}%%\nS: [ {x} ] {{ {y} }} ( {x} | {y} );\n{x}: 'x';\n{y}: 'y' | 'z' {x};\n"));
                }
            }
            // a non-terminal as start symbol
            out.push(format!("%start {x}\n{gt}%%\n{x}: 'x' [ {x} ];\n"));
        }
        for (i, a) in T_MENU.iter().enumerate() {
            for (j, b) in T_MENU.iter().enumerate() {
                if i == j {
                    continue;
                }
                out.push(format!("%start S\n{gt}%%\nS: {a} {b} | {b};\n"));
            }
            for n in ["Plus", "Minus", "AB", "Percent"] {
                out.push(format!("%start S\n{gt}%%\nS: {a} {n};\n{n}: 'n';\n"));
            }
        }
        for (i, m1) in M_MENU.iter().enumerate() {
            for (j, m2) in M_MENU.iter().enumerate() {
                if j < i {
                    continue;
                }
                out.push(format!("%start S\n{gt}%%\nS: 'a'@{m1} A@{m2} 'b';\nA: 'c';\n"));
            }
        }
    }
    out
}

fn ident_ok(s: &str) -> bool {
    syn::parse_str::<syn::Ident>(s).is_ok() || (s.starts_with("r#") && syn::parse_str::<syn::Ident>(s).is_ok())
}

fn dups(names: &[String]) -> Vec<String> {
    let mut seen = std::collections::BTreeSet::new();
    let mut d = vec![];
    for n in names {
        if !seen.insert(n.clone()) && !d.contains(n) {
            d.push(n.clone());
        }
    }
    d
}

fn eval_c33(case: &Case, acc: &Acc) -> Vec<Violation> {
    let mut out = vec![];
    let short = case.par.replace('\n', " ");
    let built = match catch(|| crate::bind::builder_generate(&case.par, case.k, &GenCfg::default())) {
        Ok(Ok(b)) => b,
        Ok(Err(e)) => {
            acc.outcome(&format!("rejected: {}", e.chars().take(40).collect::<String>()));
            return out;
        }
        Err(p) => {
            if p.contains("lalry") {
                acc.outcome("lalry panic (C26)");
            } else {
                out.push(vio("generator_panics", format!("{short}: {}", panic_site(&p)), case, json!({})));
            }
            return out;
        }
    };
    acc.outcome("generated");
    acc.eval(1);
    acc.distinct(&case.par);
    // parser file
    match crate::srcval::read_source(&built.parser) {
        Err(e) => out.push(vio("generated_parser_is_not_valid_rust_syntax", format!("{short}: {e}"), case, json!({}))),
        Ok(st) => {
            for table in ["TERMINAL_NAMES", "NON_TERMINALS"] {
                if let Some(v) = st.consts.get(table) {
                    let names: Vec<String> = v.arr().iter().map(|x| x.str().to_string()).collect();
                    let d = dups(&names);
                    if !d.is_empty() {
                        out.push(vio(&format!("duplicate_names_in_{table}"), format!("{short}: {table} contains {d:?} more than once"), case, json!({"names": names})));
                    }
                    if table == "TERMINAL_NAMES" {
                        for n in &names {
                            if !ident_ok(n) {
                                out.push(vio("terminal_name_is_not_an_identifier", format!("{short}: terminal name {n:?}"), case, json!({"names": names})));
                                break;
                            }
                        }
                    }
                }
            }
        }
    }
    // trait / AST file
    match syn::parse_file(&built.actions) {
        Err(e) => {
            let msg = e.to_string();
            out.push(vio("generated_trait_is_not_valid_rust_syntax", format!("{short}: {msg}"), case, json!({"error": msg})));
        }
        Ok(f) => {
            let mut type_names: Vec<String> = vec![];
            for item in &f.items {
                match item {
                    syn::Item::Struct(s) => {
                        type_names.push(s.ident.to_string());
                        let fields: Vec<String> = s.fields.iter().filter_map(|f| f.ident.as_ref().map(|i| i.to_string())).collect();
                        let d = dups(&fields);
                        if !d.is_empty() {
                            out.push(vio("duplicate_member_names", format!("{short}: struct {} has the members {d:?} more than once", s.ident), case, json!({})));
                        }
                    }
                    syn::Item::Enum(e) => {
                        type_names.push(e.ident.to_string());
                        let vs: Vec<String> = e.variants.iter().map(|v| v.ident.to_string()).collect();
                        let d = dups(&vs);
                        if !d.is_empty() {
                            out.push(vio("duplicate_enum_variants", format!("{short}: enum {} has the variants {d:?} more than once", e.ident), case, json!({})));
                        }
                    }
                    syn::Item::Type(t) => type_names.push(t.ident.to_string()),
                    syn::Item::Trait(t) => {
                        type_names.push(t.ident.to_string());
                        let ms: Vec<String> = t.items.iter().filter_map(|i| if let syn::TraitItem::Fn(f) = i { Some(f.sig.ident.to_string()) } else { None }).collect();
                        let d = dups(&ms);
                        if !d.is_empty() {
                            out.push(vio("duplicate_trait_methods", format!("{short}: trait {} has the methods {d:?} more than once", t.ident), case, json!({})));
                        }
                    }
                    syn::Item::Impl(im) => {
                        if im.trait_.is_none() {
                            let ms: Vec<String> = im.items.iter().filter_map(|i| if let syn::ImplItem::Fn(f) = i { Some(f.sig.ident.to_string()) } else { None }).collect();
                            let d = dups(&ms);
                            if !d.is_empty() {
                                out.push(vio("duplicate_methods_in_impl", format!("{short}: an impl block has the methods {d:?} more than once"), case, json!({})));
                            }
                        }
                    }
                    _ => {}
                }
            }
            let d = dups(&type_names);
            if !d.is_empty() {
                out.push(vio("duplicate_type_names", format!("{short}: the generated module defines {d:?} more than once"), case, json!({"types": type_names})));
            }
        }
    }
    // narrow the classes: which non-terminal name is the cause?
    let nts: Vec<String> = case.par.lines().filter_map(|l| l.split(':').next().filter(|_| l.contains(':') && !l.starts_with('%')).map(|n| n.trim().to_string())).collect();
    let strict_kw = ["Self", "self", "crate", "super"];
    let generated_items = ["GramTrait", "GramAuto", "Gram", "ASTType"];
    let cause = nts
        .iter()
        .find(|n| strict_kw.contains(&n.as_str()))
        .map(|n| format!("non_terminal_named_{n}"))
        .or_else(|| nts.iter().find(|n| generated_items.contains(&n.as_str())).map(|n| format!("non_terminal_named_like_generated_item_{n}")))
        .or_else(|| if case.par.contains("@self") { Some("member_named_self".to_string()) } else { None });
    if let Some(c) = cause {
        for v in out.iter_mut() {
            v.class = format!("{}({c})", v.class);
        }
    }
    acc.fallback(|| json!({"grammar": short}));
    if acc.want_sample() && out.is_empty() {
        acc.sample(json!({"grammar": short}));
    }
    out
}

pub fn run(id: &str, tier: Tier, replay: Option<&str>) -> i32 {
    let eval: fn(&Case, &Acc) -> Vec<Violation> = if id == "C18" { eval_c18 } else if id == "C25" { eval_c25 } else if id == "C33" { eval_c33 } else { eval_c21 };
    if let Some(p) = replay {
        let v = read_replay(p);
        let case: Case = serde_json::from_value(v["case"].clone()).expect("bad replay case");
        return replay_verdict(id, p, || eval(&case, &Acc::default()));
    }
    let ctx = Ctx::new(id, tier);
    let acc = Acc::default();
    let mut gs = annot_grammars(tier);
    if id == "C25" {
        gs = gs.into_iter().step_by(tier.pick(4, 1)).collect();
        gs.extend(c25_grammars(tier));
    }
    if id == "C33" {
        gs = gs.into_iter().step_by(tier.pick(40, 3)).collect();
        let own = c33_grammars(tier);
        let n_own = own.len();
        gs.extend(own.into_iter().enumerate().filter(|(i, _)| tier == Tier::Thorough || i % 2 == 0 || *i > n_own - 200).map(|x| x.1));
    }
    let cases: Vec<Case> = gs.into_iter().map(|par| Case { par, k: 3 }).collect();
    acc.count("grammars", cases.len() as u64);
    cases.par_iter().for_each(|c| {
        if ctx.expired() {
            acc.count("cases_skipped_by_cap", 1);
            return;
        }
        for v in eval(c, &acc) {
            acc.violation(v);
        }
    });
    let (level, rule, extra) = if id == "C33" {
        (
            "exploration",
            format!("grammars generated by the real Builder (parser + trait/AST source, rustfmt included): every ordered pair of non-terminal names from a menu of {} (case/underscore variants that collapse under case conversion, trailing digits, Rust keywords incl. Self, names the generated code imports or defines: Token Result Box Vec Option ASTType GramTrait GramAuto Gram, built-in terminal names, helper names) in two skeletons, every ordered pair of terminals from a menu of {} (texts mapping to equal / empty / digit-leading names, lookaheads) also next to non-terminals named like them, every pair of member names from {:?}, plus a slice of the C18 space; LL and LALR. Oracle (syn): both generated files are syntactically valid Rust; TERMINAL_NAMES entries are identifiers and pairwise distinct; NON_TERMINALS distinct; type names of the generated module, members per struct, variants per enum, methods per trait/impl pairwise distinct; no generated type is named like a type the generated code uses unqualified.", NT_MENU.len(), T_MENU.len(), M_MENU),
            json!({}),
        )
    } else if id == "C25" {
        (
            "exploration",
            "grammars: 4 bodies x ordered pairs of 5 terminals (raw / string / regex, positive and negative lookahead) x 5 decorations per symbol (none, ^, @m, : UT, @m : path) x 10 declaration headers (title/comment, %user_type, %nt_type, %t_type, line and block comments in all literal styles, %auto_newline_off, %auto_ws_off, %allow_unmatched) x LL/LALR (a fixed residue class of the product in the quick tier), two-state scanner configurations with every directive inside and every enter/push/pop combination, plus the C18 space; each grammar as read and after check_and_transform_grammar is rendered with render_par_string and read back; oracle: start symbol, grammar type, every production symbol (text, kind class, scanner states, clipping, member name, user type, lookahead), declarations and every ScannerConfig field are equal.".to_string(),
            json!({}),
        )
    } else if id == "C18" {
        (
            "exploration",
            "grammars: every ordered pair (and a slice / all of the triples) of terminals from a pool with equal texts in different quoting styles and with lookaheads (\"a\" 'a' /a/ \"a.\" 'a.' 'b' 'a'?='b' \"a\"?='b' 'a'?!\"b\" /b+/) in 7+3 skeletons, scanner-state configurations with enter/push/pop, %skip templates, and a slice of the enumerated spaces; LL and LALR. Oracle: terminals numbered 5.. in order of first occurrence of (text, raw-or-regex class, lookahead) in the transformed grammar; the scanner! rules of every mode, PRODUCTIONS, the export model productions and terminal table must use exactly these numbers; automata / LR actions, skip lists and transitions only refer to terminals valid there. Non-trivial = grammars with two terminals of equal text and different identity.".to_string(),
            json!({}),
        )
    } else {
        let e = acc.evaluations.load(std::sync::atomic::Ordering::Relaxed).max(1);
        (
            "translation_validation",
            "same grammar space; for every accepted grammar the tables recovered from the generated Rust source, the export model (JSON) and the analysis results are compared field by field: names, start index, productions (reversed back), push flags, lookahead automata (tables equal between source and model; language equal to the analysis automaton on all strings up to k), LR actions through the action index and gotos, scanner modes / built-in rules / error rule / transitions / skip lists, all indices in range.".to_string(),
            json!({"programs": e, "disagreements_checked": e * 12}),
        )
    };
    finish(
        &ctx,
        &acc,
        Finish { level, rule, exhaustive_note: "all grammars of the stated space unless capped=true".into(), assumptions: vec![], extra },
    )
}
