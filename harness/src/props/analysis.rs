//! C05 (LL(k) decision), C06 (FIRST_k / FOLLOW_k, any request order), C07 (lookahead automata),
//! C08 (runtime prediction): enumeration against reference sets computed by definition.

use rayon::prelude::*;
use serde_json::json;
use std::collections::{BTreeMap, HashSet, VecDeque};

use parol::analysis::k_decision::{FirstCache, FollowCache, decidable};
use parol::parser::parol_grammar::GrammarType;
use parol::{KTuples, calculate_lookahead_dfas, check_and_transform_grammar, obtain_grammar_config_from_string};

use crate::bind::{GenCfg, Tables, bind, pipeline};
use crate::common::*;
use crate::gram::*;
use crate::refs::*;

pub fn set_of(kt: &KTuples) -> Set {
    kt.sorted()
        .iter()
        .map(|t| {
            if t.is_eps() {
                vec![]
            } else {
                t.terminals().iter().collect::<Vec<u16>>()
            }
        })
        .collect()
}

fn fmt_set(s: &Set) -> String {
    let v: Vec<String> = s.iter().map(|w| format!("{w:?}")).collect();
    format!("{{{}}}", v.join(","))
}

#[derive(serde::Serialize, serde::Deserialize, Clone, Debug)]
pub struct Case {
    pub gram: Gram,
    pub k: usize,
    /// use the grammar as read (not left-factored) for the public analysis functions
    pub raw: bool,
}

fn vio(class: &str, what: String, case: &Case, detail: serde_json::Value) -> Violation {
    Violation { class: class.into(), what, case: json!({"case": case, "par": case.gram.to_par()}), detail }
}

fn grammars(tier: Tier, cheap: bool) -> Vec<Gram> {
    // the per-grammar cost of C05/C07/C08 is small: their quick tier already uses the large space
    let mut v = super::ll::ll_grammars(if cheap { Tier::Thorough } else { tier });
    if cheap && tier == Tier::Thorough {
        let mut more = enum_bnf_pre(&BnfSpace { max_nt: 3, max_t: 2, max_len: 3, max_alts: 3, max_size: 11 }, false, Pre::WellFormedLl);
        more.retain(|g| g.prods.iter().any(|(_, a)| a.len() == 3));
        v.extend(more);
        let mut t3 = enum_bnf_pre(&BnfSpace { max_nt: 3, max_t: 3, max_len: 3, max_alts: 2, max_size: 10 }, false, Pre::WellFormedLl);
        t3.retain(|g| g.terms.len() == 3 && g.nts.len() == 3);
        v.extend(t3);
    }
    v.extend(self_embedding_family(tier));
    // keep grammars the reference calls well-formed for LL, or EBNF (decided by parol's check)
    v.retain(|g| !g.is_bnf() || Bnf::of(g).well_formed_ll());
    v
}

/// Right-hand sides longer than the enumerated spaces allow: `S: A; A: alpha A beta | gamma; B: 'c';` with
/// alpha = 1..3 terminals, beta = 0..2 symbols (terminals or B), gamma = one terminal or empty
/// (a non-terminal embedded in the middle of its own production behind several terminals)
fn self_embedding_family(tier: Tier) -> Vec<Gram> {
    fn seqs(alpha: &[Fac], min: usize, max: usize) -> Vec<Seq> {
        let mut res: Vec<Seq> = vec![];
        let mut layer: Vec<Seq> = vec![vec![]];
        if min == 0 {
            res.push(vec![]);
        }
        for l in 1..=max {
            let mut nx = vec![];
            for w in &layer {
                for a in alpha {
                    let mut z = w.clone();
                    z.push(a.clone());
                    nx.push(z);
                }
            }
            if l >= min {
                res.extend(nx.iter().cloned());
            }
            layer = nx;
        }
        res
    }
    let mut out = vec![];
    let alphas = seqs(&[Fac::T(0), Fac::T(1)], 1, tier.pick(2, 3));
    let betas = seqs(&[Fac::T(0), Fac::T(2), Fac::N(2)], 0, 2);
    for a in &alphas {
        for b in &betas {
            for gamma in [vec![Fac::T(3)], vec![]] {
                let mut rhs = a.clone();
                rhs.push(Fac::N(1));
                rhs.extend(b.iter().cloned());
                let uses_b = b.contains(&Fac::N(2));
                let mut prods = vec![(0u8, vec![vec![Fac::N(1)]]), (1u8, vec![rhs, gamma.clone()])];
                if uses_b {
                    prods.push((2u8, vec![vec![Fac::T(2)]]));
                }
                out.push(Gram::simple(if uses_b { 3 } else { 2 }, 4, prods, false));
            }
        }
    }
    out
}

/// Prepare the grammar config (transformed or raw). None = rejected by parol's check stage.
fn prepare(case: &Case) -> Option<parol::GrammarConfig> {
    let par = case.gram.to_par();
    let mut gc = obtain_grammar_config_from_string(&par, false).ok()?;
    if !case.raw {
        let t = check_and_transform_grammar(&gc.cfg, GrammarType::LLK).ok()?;
        gc.update_cfg(t);
    }
    Some(gc)
}

// ---------------------------------------------------------------------------------------------
// C05
// ---------------------------------------------------------------------------------------------

fn eval_c05(case: &Case, acc: &Acc) -> Vec<Violation> {
    let mut out = vec![];
    let Ok(Some(gc)) = catch(|| prepare(case)) else {
        acc.outcome("not_prepared");
        return out;
    };
    let rb = RBnf::of(&gc.cfg);
    let mk = minimal_ks(&rb, case.k);
    let ref_ok = mk.iter().all(|m| m.is_some());
    acc.eval(1);
    let r = match catch(|| calculate_lookahead_dfas(&gc, case.k)) {
        Ok(r) => r,
        Err(p) => {
            acc.outcome("panic");
            out.push(vio("panic_in_lookahead_calculation", format!("{} K={}: {}", case.gram.short(), case.k, panic_site(&p)), case, json!({})));
            return out;
        }
    };
    acc.outcome(&format!("parol_ok={} ref_ok={} maxk={:?}", r.is_ok(), ref_ok, mk.iter().flatten().max()));
    if mk.iter().flatten().any(|k| *k >= 2) || !ref_ok {
        acc.distinct(&(case.gram.clone(), case.k, case.raw));
    }
    match &r {
        Ok(dfas) => {
            if !ref_ok {
                let bad: Vec<&String> = rb.nts.iter().zip(mk.iter()).filter(|(_, m)| m.is_none()).map(|(n, _)| n).collect();
                out.push(vio(
                    "accepts_grammar_that_is_not_strong_ll_k",
                    format!("{} raw={} K={}: parol accepts, but {:?} not strong-LL(k) for k<={}", case.gram.short(), case.raw, case.k, bad, case.k),
                    case,
                    json!({"undecidable": bad}),
                ));
            } else {
                for (i, n) in rb.nts.iter().enumerate() {
                    let Some(d) = dfas.get(n) else {
                        out.push(vio("missing_automaton", format!("{}: no automaton for {n}", case.gram.short()), case, json!({})));
                        continue;
                    };
                    if Some(d.k) != mk[i] {
                        out.push(vio(
                            "lookahead_not_minimal",
                            format!("{} raw={} K={}: non-terminal {n} got k={} but minimal strong-LL k is {:?}", case.gram.short(), case.raw, case.k, d.k, mk[i]),
                            case,
                            json!({"nt": n, "k": d.k, "minimal": mk[i]}),
                        ));
                    }
                }
            }
        }
        Err(e) => {
            if ref_ok {
                out.push(vio(
                    "rejects_strong_ll_k_grammar",
                    format!("{} raw={} K={}: parol rejects ({}), reference minimal ks {:?}", case.gram.short(), case.raw, case.k, crate::bind::fmt_err(e), mk),
                    case,
                    json!({"minimal": mk}),
                ));
            }
        }
    }
    // the public per-non-terminal decision
    let fc = FirstCache::new();
    let foc = FollowCache::new();
    let mut n_fail = 0;
    for (i, n) in rb.nts.iter().enumerate() {
        match catch(|| decidable(&gc, n, case.k, &fc, &foc)) {
            Err(p) => out.push(vio("panic_in_decidable", format!("{} nt {n}: {}", case.gram.short(), panic_site(&p)), case, json!({}))),
            Ok(Ok(k)) => {
                if Some(k) != mk[i] {
                    out.push(vio(
                        "decidable_wrong_k",
                        format!("{} raw={} K={}: decidable({n}) = {k}, reference minimal k {:?}", case.gram.short(), case.raw, case.k, mk[i]),
                        case,
                        json!({"nt": n, "k": k, "minimal": mk[i]}),
                    ));
                }
            }
            Ok(Err(_)) => {
                n_fail += 1;
                if mk[i].is_some() {
                    out.push(vio(
                        "decidable_fails_for_decidable_nt",
                        format!("{} raw={} K={}: decidable({n}) fails, reference minimal k {:?}", case.gram.short(), case.raw, case.k, mk[i]),
                        case,
                        json!({"nt": n, "minimal": mk[i]}),
                    ));
                }
            }
        }
    }
    if r.is_err() && n_fail == 0 && !ref_ok {
        out.push(vio("rejection_names_no_nonterminal", format!("{}: rejected but decidable succeeds for every non-terminal", case.gram.short()), case, json!({})));
    }
    acc.fallback(|| json!({"grammar": case.gram.short(), "K": case.k, "raw": case.raw}));
    if acc.want_sample() && mk.iter().flatten().any(|k| *k >= 2) {
        acc.sample(json!({"grammar": case.gram.short(), "K": case.k, "raw": case.raw, "reference_minimal_k": mk, "parol_ok": r.is_ok()}));
    }
    out
}

// ---------------------------------------------------------------------------------------------
// C06
// ---------------------------------------------------------------------------------------------

#[derive(Clone, Copy, Debug, PartialEq, Eq, Hash, serde::Serialize, serde::Deserialize)]
pub enum Op {
    First(usize),
    Follow(usize),
}

struct RefSets {
    first: Vec<First>,
    follow: Vec<Vec<Set>>,
}

fn ref_sets(rb: &RBnf, kb: usize) -> RefSets {
    let mut first = vec![];
    let mut follow = vec![];
    for k in 0..=kb {
        let f = first_k(rb, k);
        follow.push(follow_k(rb, k, &f));
        first.push(f);
    }
    RefSets { first, follow }
}

/// Check every filled slot of the caches against the reference; returns (content key, problems)
fn check_caches(gc: &parol::GrammarConfig, rb: &RBnf, rs: &RefSets, fc: &FirstCache, foc: &FollowCache, kb: usize) -> (u64, Vec<String>) {
    let mut problems = vec![];
    let mut content: Vec<(u8, usize, Vec<Set>)> = vec![];
    let _ = gc;
    for k in 0..=kb {
        let fs = fc.0[k].borrow();
        if !fs.is_empty() {
            let pr: Vec<Set> = fs.productions.iter().map(set_of).collect();
            let nt: Vec<Set> = fs.non_terminals.iter().map(set_of).collect();
            if k >= 1 {
                for (i, s) in pr.iter().enumerate() {
                    if *s != rs.first[k].prods[i] {
                        problems.push(format!("FIRST_{k}(production {i}) = {} but by definition {}", fmt_set(s), fmt_set(&rs.first[k].prods[i])));
                    }
                }
                for (i, s) in nt.iter().enumerate() {
                    if *s != rs.first[k].nts[i] {
                        problems.push(format!("FIRST_{k}({}) = {} but by definition {}", rb.nts[i], fmt_set(s), fmt_set(&rs.first[k].nts[i])));
                    }
                }
            } else {
                for s in pr.iter().chain(nt.iter()) {
                    if s.iter().any(|w| !(w.is_empty() || *w == vec![END])) {
                        problems.push(format!("FIRST_0 contains a non-empty string: {}", fmt_set(s)));
                    }
                }
            }
            content.push((0, k, pr));
            content.push((1, k, nt));
        }
        let ce = foc.0[k].borrow();
        if !ce.is_empty() {
            let fo = parol::verif_hooks::cache_entry_follow_set(&ce);
            let nt: Vec<Set> = fo.non_terminals.iter().map(set_of).collect();
            if k >= 1 {
                for (i, s) in nt.iter().enumerate() {
                    if *s != rs.follow[k][i] {
                        problems.push(format!("FOLLOW_{k}({}) = {} but by definition {}", rb.nts[i], fmt_set(s), fmt_set(&rs.follow[k][i])));
                    }
                }
            } else {
                for s in nt.iter() {
                    if s.iter().any(|w| !(w.is_empty() || *w == vec![END])) {
                        problems.push(format!("FOLLOW_0 contains a non-empty string: {}", fmt_set(s)));
                    }
                }
            }
            content.push((2, k, nt));
        }
    }
    (hash_of(&content), problems)
}

fn apply(op: Op, gc: &parol::GrammarConfig, fc: &FirstCache, foc: &FollowCache) {
    match op {
        Op::First(k) => {
            let _ = fc.get(k, gc);
        }
        Op::Follow(k) => {
            let _ = foc.get(k, gc, fc);
        }
    }
}

#[derive(serde::Serialize, serde::Deserialize, Clone, Debug)]
pub struct C06Case {
    pub gram: Gram,
    pub raw: bool,
    pub kb: usize,
    pub depth: usize,
    pub ops: Option<Vec<Op>>,
}

fn eval_c06(case: &C06Case, acc: &Acc) -> Vec<Violation> {
    let mut out = vec![];
    let c = Case { gram: case.gram.clone(), k: case.kb, raw: case.raw };
    let Ok(Some(gc)) = catch(|| prepare(&c)) else {
        acc.outcome("not_prepared");
        return out;
    };
    let rb = RBnf::of(&gc.cfg);
    let rs = ref_sets(&rb, case.kb);
    let mut alphabet = vec![];
    for k in 0..=case.kb {
        alphabet.push(Op::First(k));
        alphabet.push(Op::Follow(k));
    }
    let mkvio = |ops: &[Op], p: &str| {
        let mut cc = case.clone();
        cc.ops = Some(ops.to_vec());
        Violation {
            class: if p.starts_with("FIRST") { "first_set_differs_from_definition".into() } else if p.starts_with("FOLLOW") { "follow_set_differs_from_definition".into() } else { "panic_in_first_follow".into() },
            what: format!("{} raw={} after requests {:?}: {}", case.gram.short(), case.raw, ops, p),
            case: json!({"case": cc, "par": case.gram.to_par()}),
            detail: json!({"ops": format!("{ops:?}"), "problem": p}),
        }
    };
    let run = |ops: &[Op]| -> Result<(u64, Vec<String>), String> {
        catch(|| {
            let fc = FirstCache::new();
            let foc = FollowCache::new();
            for op in ops {
                apply(*op, &gc, &fc, &foc);
            }
            check_caches(&gc, &rb, &rs, &fc, &foc, case.kb)
        })
    };
    if let Some(ops) = &case.ops {
        match run(ops) {
            Ok((_, probs)) => {
                for p in probs.iter().take(3) {
                    out.push(mkvio(ops, p));
                }
            }
            Err(p) => out.push(mkvio(ops, &format!("panic: {}", panic_site(&p)))),
        }
        return out;
    }
    // BFS over request sequences, deduplicated on cache content
    let mut seen: HashSet<u64> = HashSet::new();
    let mut queue: VecDeque<Vec<Op>> = VecDeque::new();
    queue.push_back(vec![]);
    seen.insert(hash_of(&Vec::<(u8, usize, Vec<Set>)>::new()));
    let mut states = 1u64;
    let mut transitions = 0u64;
    let mut reported = false;
    while let Some(ops) = queue.pop_front() {
        if ops.len() >= case.depth {
            continue;
        }
        for op in &alphabet {
            let mut nx = ops.clone();
            nx.push(*op);
            transitions += 1;
            match run(&nx) {
                Ok((key, probs)) => {
                    if !probs.is_empty() && !reported {
                        reported = true;
                        for p in probs.iter().take(2) {
                            out.push(mkvio(&nx, p));
                        }
                    }
                    if seen.insert(key) {
                        states += 1;
                        queue.push_back(nx);
                    }
                }
                Err(p) => {
                    if !reported {
                        reported = true;
                        out.push(mkvio(&nx, &format!("panic: {}", panic_site(&p))));
                    }
                }
            }
        }
    }
    acc.eval(transitions);
    acc.count("states", states);
    acc.count("transitions", transitions);
    acc.outcome(&format!("distinct_cache_states={states}"));
    let nontrivial = rs.first[case.kb.min(2)].nts.iter().any(|s| s.len() >= 2);
    if nontrivial {
        acc.distinct(&(case.gram.clone(), case.raw));
    }
    acc.fallback(|| json!({"grammar": case.gram.short(), "raw": case.raw}));
    if acc.want_sample() && nontrivial && rb.nts.len() >= 2 {
        acc.sample(json!({"grammar": case.gram.short(), "raw": case.raw, "cache_states": states, "request_sequences": transitions,
            "FIRST_2": rs.first[case.kb.min(2)].nts.iter().map(fmt_set).collect::<Vec<_>>(),
            "FOLLOW_2": rs.follow[case.kb.min(2)].iter().map(fmt_set).collect::<Vec<_>>()}));
    }
    out
}

// ---------------------------------------------------------------------------------------------
// C07 / C08
// ---------------------------------------------------------------------------------------------

/// all strings over `alpha` of length <= n
fn strings_over(alpha: &[u16], n: usize) -> Vec<Vec<u16>> {
    let mut res = vec![vec![]];
    let mut layer: Vec<Vec<u16>> = vec![vec![]];
    for _ in 0..n {
        let mut nx = vec![];
        for w in &layer {
            for a in alpha {
                let mut z = w.clone();
                z.push(*a);
                nx.push(z);
            }
        }
        res.extend(nx.iter().cloned());
        layer = nx;
    }
    res
}

/// run w through a transition list from state 0; Some(prod of final state) if every token had a
/// transition
fn run_trans(prod0: i32, trans: &[(usize, u16, usize, i32)], w: &[u16]) -> Option<i32> {
    let mut st = 0usize;
    let mut prod = prod0;
    for t in w {
        let mut found = None;
        for tr in trans {
            if tr.0 == st && tr.1 == *t {
                if found.is_some() {
                    return Some(-99); // non-deterministic
                }
                found = Some(tr);
            }
        }
        let tr = found?;
        st = tr.2;
        prod = tr.3;
    }
    Some(prod)
}

fn eval_c07_c08(case: &Case, c07: bool, acc: &Acc) -> Vec<Violation> {
    let mut out = vec![];
    let par = case.gram.to_par();
    let Ok(Ok(g)) = catch(|| pipeline(&par, case.k, &GenCfg::default())) else {
        acc.outcome("not_accepted");
        return out;
    };
    let crate::bind::Analysis::Ll(dfas) = &g.analysis else { return out };
    let bound = match bind(&g.parser_src) {
        Ok(b) => b,
        Err(m) => {
            out.push(vio("machinery_bind", m, case, json!({})));
            return out;
        }
    };
    let Tables::Ll { las, .. } = &bound.tables else { return out };
    let rb = RBnf::of(&g.gc.cfg);
    let mk = minimal_ks(&rb, case.k);
    if mk.iter().any(|m| m.is_none()) {
        acc.outcome("accepted_but_reference_disagrees(C05)");
        return out;
    }
    acc.outcome("accepted");
    let mut la_by_k: BTreeMap<usize, Vec<Set>> = BTreeMap::new();
    let mut alpha: Vec<u16> = rb.terminals();
    alpha.push(END);
    let err_tok = (bound.tnames.len() - 1) as u16;
    for (ni, n) in rb.nts.iter().enumerate() {
        let k = mk[ni].unwrap();
        let la = la_by_k.entry(k).or_insert_with(|| la_sets(&rb, k)).clone();
        let ps = prods_of(&rb, ni);
        let want = |w: &[u16]| -> Option<usize> { ps.iter().copied().find(|p| la[*p].contains(w)) };
        if c07 {
            let Some(d) = dfas.get(n) else { continue };
            let comp: Vec<(usize, u16, usize, i32)> = las[ni].transitions.iter().map(|t| (t.0, t.1, t.2, t.3 as i32)).collect();
            let mut unmin: Vec<(usize, u16, usize, i32)> = vec![];
            for (from, m) in &d.transitions {
                for (t, to) in m {
                    unmin.push((*from, *t, *to, d.states[*to].prod_num));
                }
            }
            let p0u = d.states[0].prod_num;
            let ws = strings_over(&alpha, k + 1);
            let mut nontrivial = false;
            for w in &ws {
                // strings with END in the middle are not token strings
                if w.iter().rev().skip(1).any(|t| *t == END) {
                    continue;
                }
                acc.eval(1);
                let expect: Option<usize> = if ps.len() == 1 { if w.is_empty() { Some(ps[0]) } else { None } } else { want(w) };
                let got_c = run_trans(las[ni].prod0 as i32, &comp, w).filter(|p| *p >= 0).map(|p| p as usize);
                let got_u = run_trans(p0u, &unmin, w).filter(|p| *p >= 0).map(|p| p as usize);
                if expect.is_some() && !w.is_empty() {
                    nontrivial = true;
                }
                if got_c != expect {
                    out.push(vio(
                        "compiled_automaton_differs_from_lookahead_sets",
                        format!("{} K={} nt {n} (k={k}): token string {w:?} reaches production {got_c:?} in the generated automaton, lookahead sets say {expect:?}", case.gram.short(), case.k),
                        case,
                        json!({"nt": n, "w": w, "got": got_c, "expect": expect, "transitions": format!("{comp:?}")}),
                    ));
                    break;
                }
                if got_u != expect {
                    out.push(vio(
                        "unminimized_automaton_differs_from_lookahead_sets",
                        format!("{} K={} nt {n} (k={k}): token string {w:?} reaches production {got_u:?} in the lookahead DFA, lookahead sets say {expect:?}", case.gram.short(), case.k),
                        case,
                        json!({"nt": n, "w": w, "got": got_u, "expect": expect}),
                    ));
                    break;
                }
            }
            if las[ni].k != k {
                out.push(vio("generated_k_differs", format!("{} nt {n}: generated k {} vs minimal {k}", case.gram.short(), las[ni].k), case, json!({})));
            }
            if nontrivial && k >= 1 {
                acc.distinct(&(case.gram.clone(), case.k, ni));
                if acc.want_sample() && k >= 2 {
                    acc.sample(json!({"grammar": case.gram.short(), "nt": n, "k": k, "strings_checked": ws.len(), "generated_transitions": format!("{comp:?}"),
                        "lookahead_sets": ps.iter().map(|p| (p.to_string(), fmt_set(&la[*p]))).collect::<BTreeMap<_, _>>()}));
                }
            }
        } else {
            // C08: real eval on real token buffers
            let sk = bound.stream_k;
            let mut talpha: Vec<u8> = (0..case.gram.terms.len() as u8).collect();
            talpha.push(FOREIGN_T);
            let inputs = {
                let mut res: Vec<Vec<u8>> = vec![vec![]];
                let mut layer: Vec<Vec<u8>> = vec![vec![]];
                for _ in 0..(k + 2).min(sk + 1) {
                    let mut nx = vec![];
                    for w in &layer {
                        for a in &talpha {
                            let mut z = w.clone();
                            z.push(*a);
                            nx.push(z);
                        }
                    }
                    res.extend(nx.iter().cloned());
                    layer = nx;
                }
                res
            };
            let mut outcomes = HashSet::new();
            for w in &inputs {
                let text = case.gram.render_input(w, " ");
                let r = catch(|| {
                    let mut ts = bound.token_stream(&text, sk);
                    let types: Vec<u16> = (0..sk).map(|i| ts.lookahead_token_type(i).unwrap_or(9999)).collect();
                    (types, las[ni].eval(&mut ts, ni).map_err(|e| format!("{e:?}").chars().take(40).collect::<String>()))
                });
                acc.eval(1);
                let (types, res) = match r {
                    Ok(x) => x,
                    Err(p) => {
                        out.push(vio("panic_in_eval", format!("{} nt {n} input {text:?}: {}", case.gram.short(), panic_site(&p)), case, json!({"input": text})));
                        break;
                    }
                };
                // buffer begins with which lookahead string?
                let expect: Option<usize> = if ps.len() == 1 {
                    Some(ps[0])
                } else {
                    ps.iter().copied().find(|p| la[*p].iter().any(|s| types.len() >= s.len() && types[..s.len()] == s[..]))
                };
                let got = res.as_ref().ok().copied();
                outcomes.insert((got.is_some(), types.contains(&err_tok)));
                if got != expect {
                    let class = if got.is_some() && expect.is_none() {
                        if types.iter().take(k).any(|t| *t == err_tok || !la.iter().any(|_| true)) { "predicts_although_no_lookahead_string_matches" } else { "predicts_although_no_lookahead_string_matches" }
                    } else if got.is_none() {
                        "prediction_error_although_lookahead_matches"
                    } else {
                        "predicts_wrong_production"
                    };
                    out.push(vio(
                        class,
                        format!("{} K={} nt {n} (k={k}): buffer {types:?} (input {text:?}) -> eval {:?}, lookahead sets say {expect:?}", case.gram.short(), case.k, res),
                        case,
                        json!({"nt": n, "input": text, "buffer": types, "eval": format!("{res:?}"), "expect": expect,
                            "lookahead_sets": ps.iter().map(|p| (p.to_string(), fmt_set(&la[*p]))).collect::<BTreeMap<_, _>>()}),
                    ));
                    break;
                }
            }
            if ps.len() > 1 && outcomes.len() >= 2 {
                acc.distinct(&(case.gram.clone(), case.k, ni));
                if acc.want_sample() && k >= 2 {
                    acc.sample(json!({"grammar": case.gram.short(), "nt": n, "k": k, "buffers": inputs.len()}));
                }
            }
        }
    }
    out
}


// ---------------------------------------------------------------------------------------------
// lookahead-set families (C07 / C08 without a grammar): every assignment of k-complete strings
// to productions -> parol's own automaton construction and minimization -> checks
// ---------------------------------------------------------------------------------------------

#[derive(serde::Serialize, serde::Deserialize, Clone, Debug)]
pub struct FamCase {
    pub k: usize,
    pub strings: Vec<Vec<u16>>,
    /// per string: 0 = unused, p+1 = production p
    pub assign: Vec<u8>,
}

fn fam_strings(k: usize, nterm: usize, with_short: usize) -> Vec<Vec<u16>> {
    let alpha: Vec<u16> = (5..5 + nterm as u16).collect();
    let mut out = strings_over(&alpha, k).into_iter().filter(|w| w.len() == k).collect::<Vec<_>>();
    // shorter strings terminated by end of input
    let mut short: Vec<Vec<u16>> = strings_over(&alpha, k - 1).into_iter().map(|mut w| { w.push(END); w }).collect();
    short.truncate(with_short);
    out.extend(short);
    out
}

thread_local! {
    static FAM_SCANNER: std::cell::OnceCell<crate::bind::Bound> = const { std::cell::OnceCell::new() };
}

fn with_scanner<R>(f: impl FnOnce(&crate::bind::Bound) -> R) -> R {
    FAM_SCANNER.with(|c| {
        let b = c.get_or_init(|| {
            let par = "%start S\n%%\nS: { 'a' | 'b' | 'c' };\n";
            crate::bind::generate_and_bind(par, 1, &GenCfg::default()).map_err(|e| e.msg).expect("scanner grammar").1
        });
        f(b)
    })
}

fn eval_family(case: &FamCase, c07: bool, acc: &Acc) -> Vec<Violation> {
    let mut out = vec![];
    let nprod = *case.assign.iter().max().unwrap_or(&0) as usize;
    if nprod < 2 {
        return out;
    }
    let la: Vec<Set> = (0..nprod).map(|p| case.strings.iter().zip(case.assign.iter()).filter(|(_, a)| **a as usize == p + 1).map(|(s, _)| s.clone()).collect()).collect();
    if la.iter().any(|s| s.is_empty()) {
        return out;
    }
    let mkvio = |class: &str, what: String| Violation { class: class.into(), what, case: json!({"family": case}), detail: json!({}) };
    let max_ti = 9usize;
    let built = catch(|| {
        let mut dfa: Option<parol::LookaheadDFA> = None;
        for (p, set) in la.iter().enumerate() {
            let strs: Vec<&[u16]> = set.iter().map(|v| v.as_slice()).collect();
            let kt = parol::KTuplesBuilder::new().k(case.k).max_terminal_index(max_ti).terminal_indices(&strs).build().map_err(|e| e.to_string())?;
            let d = parol::LookaheadDFA::from_k_tuples(&kt, p);
            dfa = Some(match dfa {
                None => d,
                Some(x) => x.unite(&d).map_err(|e| e.to_string())?,
            });
        }
        let dfa = dfa.unwrap();
        let compiled = parol::verif_hooks::compile_lookahead_dfa(&dfa);
        Ok::<_, String>((dfa, compiled))
    });
    let (dfa, (prod0, comp, ck)) = match built {
        Ok(Ok(x)) => x,
        Ok(Err(e)) => {
            out.push(mkvio("automaton_construction_fails_on_disjoint_sets", format!("lookahead sets {:?}: {e}", la)));
            return out;
        }
        Err(p) => {
            out.push(mkvio("automaton_construction_panics", format!("lookahead sets {:?}: {}", la, panic_site(&p))));
            return out;
        }
    };
    acc.distinct(&(case.k, case.assign.clone(), case.strings.len()));
    let want = |w: &[u16]| -> Option<usize> { (0..nprod).find(|p| la[*p].contains(w)) };
    let nterm = case.strings.iter().flatten().filter(|t| **t != END).max().map(|m| (*m - 4) as usize).unwrap_or(2);
    if c07 {
        let mut alpha: Vec<u16> = (5..5 + nterm as u16).collect();
        alpha.push(END);
        let mut unmin: Vec<(usize, u16, usize, i32)> = vec![];
        for (from, m) in &dfa.transitions {
            for (t, to) in m {
                unmin.push((*from, *t, *to, dfa.states[*to].prod_num));
            }
        }
        for w in strings_over(&alpha, case.k + 1) {
            if w.iter().rev().skip(1).any(|t| *t == END) {
                continue;
            }
            acc.eval(1);
            let expect = want(&w);
            let got_c = run_trans(prod0, &comp, &w).filter(|p| *p >= 0).map(|p| p as usize);
            let got_u = run_trans(dfa.states[0].prod_num, &unmin, &w).filter(|p| *p >= 0).map(|p| p as usize);
            if got_c != expect {
                out.push(mkvio("compiled_automaton_differs_from_lookahead_sets", format!("lookahead sets {:?} (k={}): token string {w:?} reaches production {got_c:?} in the minimized automaton {comp:?}, the sets say {expect:?}", la, case.k)));
                break;
            }
            if got_u != expect {
                out.push(mkvio("unminimized_automaton_differs_from_lookahead_sets", format!("lookahead sets {:?} (k={}): token string {w:?} reaches {got_u:?}, the sets say {expect:?}", la, case.k)));
                break;
            }
        }
        if ck != case.k && la.iter().flatten().any(|s| s.len() == case.k) {
            out.push(mkvio("compiled_k_differs", format!("lookahead sets {:?}: compiled k {ck}, longest string {}", la, case.k)));
        }
    } else {
        // real eval on real token buffers
        let arena = crate::bind::Arena::default();
        let trans: Vec<parol_runtime::parser::Trans> = comp.iter().map(|t| parol_runtime::parser::Trans(t.0, t.1, t.2, t.3 as _)).collect();
        let rdfa = parol_runtime::parser::LookaheadDFA { prod0: prod0 as _, transitions: arena.slice(trans), k: ck };
        let texts = { let mut a: Vec<String> = ["a", "b", "c"][..nterm].iter().map(|s| s.to_string()).collect(); a.push("x".into()); crate::props::scanner::texts_over(&a, case.k + 1) };
        with_scanner(|bound| {
            for text in &texts {
                let spaced: String = text.chars().map(|c| format!("{c} ")).collect();
                let r = catch(|| {
                    let mut ts = bound.token_stream(&spaced, case.k.max(ck).max(1));
                    let types: Vec<u16> = (0..case.k.max(ck).max(1)).map(|i| ts.lookahead_token_type(i).unwrap_or(9999)).collect();
                    (types, rdfa.eval(&mut ts, 0).map_err(|e| format!("{e:?}").chars().take(40).collect::<String>()))
                });
                acc.eval(1);
                let (types, res) = match r {
                    Ok(x) => x,
                    Err(p) => {
                        out.push(mkvio("panic_in_eval", format!("lookahead sets {:?} input {text:?}: {}", la, panic_site(&p))));
                        break;
                    }
                };
                let expect = (0..nprod).find(|p| la[*p].iter().any(|s| types.len() >= s.len() && types[..s.len()] == s[..]));
                let got = res.as_ref().ok().copied();
                if got != expect {
                    let class = if got.is_some() && expect.is_none() { "predicts_although_no_lookahead_string_matches" } else if got.is_none() { "prediction_error_although_lookahead_matches" } else { "predicts_wrong_production" };
                    out.push(mkvio(class, format!("lookahead sets {:?} (k={}), automaton {comp:?}: buffer {types:?} -> eval {res:?}, the sets say {expect:?}", la, case.k)));
                    break;
                }
            }
        });
    }
    out
}

fn families(tier: Tier) -> Vec<(usize, Vec<Vec<u16>>, usize)> {
    // (k, strings, number of productions)
    match tier {
        Tier::Quick => vec![(1, fam_strings(1, 3, 1), 3), (2, fam_strings(2, 2, 3), 2), (3, fam_strings(3, 2, 0), 2)],
        Tier::Thorough => vec![(1, fam_strings(1, 3, 1), 3), (2, fam_strings(2, 2, 3), 3), (2, fam_strings(2, 3, 1), 2), (3, fam_strings(3, 2, 2), 2), (3, fam_strings(3, 2, 0), 3)],
    }
}

fn run_families(ctx: &Ctx, acc: &Acc, tier: Tier, c07: bool) {
    for (k, strings, nprod) in families(tier) {
        let base = (nprod + 1) as u64;
        let total = base.pow(strings.len() as u32);
        acc.count("lookahead_set_families_enumerated", total);
        (0..total).into_par_iter().for_each(|mut code| {
            if ctx.expired() {
                return;
            }
            let mut assign = vec![0u8; strings.len()];
            for a in assign.iter_mut() {
                *a = (code % base) as u8;
                code /= base;
            }
            // canonical: production numbers appear in increasing order of first use
            let mut seen = 0u8;
            for a in &assign {
                if *a > seen + 1 {
                    return;
                }
                if *a == seen + 1 {
                    seen += 1;
                }
            }
            let case = FamCase { k, strings: strings.clone(), assign };
            for v in eval_family(&case, c07, acc) {
                acc.violation(v);
            }
        });
    }
}

pub fn run(id: &str, tier: Tier, replay: Option<&str>) -> i32 {
    if let Some(p) = replay {
        let v = read_replay(p);
        if v.get("family").is_some() {
            let case: FamCase = serde_json::from_value(v["family"].clone()).expect("bad replay case");
            return replay_verdict(id, p, || eval_family(&case, id == "C07", &Acc::default()));
        }
        return match id {
            "C06" => {
                let case: C06Case = serde_json::from_value(v["case"].clone()).expect("bad replay case");
                replay_verdict(id, p, || eval_c06(&case, &Acc::default()))
            }
            _ => {
                let case: Case = serde_json::from_value(v["case"].clone()).expect("bad replay case");
                replay_verdict(id, p, || match id {
                    "C05" => eval_c05(&case, &Acc::default()),
                    "C07" => eval_c07_c08(&case, true, &Acc::default()),
                    _ => eval_c07_c08(&case, false, &Acc::default()),
                })
            }
        };
    }
    let ctx = Ctx::new(id, tier);
    let acc = Acc::default();
    let grams = grammars(tier, id != "C06");
    acc.count("grammars_enumerated", grams.len() as u64);
    let (level, rule, extra);
    match id {
        "C05" => {
            let ks: &[usize] = tier.pick(&[1, 2, 3, 4], &[1, 2, 3, 4, 5, 6]);
            let mut cases = vec![];
            for g in &grams {
                for k in ks {
                    cases.push(Case { gram: g.clone(), k: *k, raw: false });
                    if g.is_bnf() {
                        cases.push(Case { gram: g.clone(), k: *k, raw: true });
                    }
                }
            }
            cases.par_iter().for_each(|c| {
                if ctx.expired() {
                    acc.count("cases_skipped_by_cap", 1);
                    return;
                }
                for v in eval_c05(c, &acc) {
                    acc.violation(v);
                }
            });
            level = "exploration";
            rule = format!("the left-recursion-free, productive, reachable grammars among: {} (as left-factored by the pipeline and, raw, fed directly to the public analysis functions) plus EBNF bodies plus the self-embedding family `S: A; A: alpha A beta | gamma` with alpha of 1-3 terminals and beta of 0-2 symbols; lookahead limits K in {:?}. Oracle: strong-LL(k) by definition (pairwise disjoint FIRST_k(alpha) (+)k FOLLOW_k(A)), minimal k by increasing k. Non-trivial = grammars needing k >= 2 somewhere or rejected at K.", super::ll::spaces_text(Tier::Thorough), ks);
            extra = json!({});
        }
        "C06" => {
            let kb = tier.pick(3, 4);
            let depth = tier.pick(3, 4);
            let mut cases = vec![];
            for g in &grams {
                cases.push(C06Case { gram: g.clone(), raw: false, kb, depth, ops: None });
                if g.is_bnf() {
                    cases.push(C06Case { gram: g.clone(), raw: true, kb, depth, ops: None });
                }
            }
            cases.par_iter().for_each(|c| {
                if ctx.expired() {
                    acc.count("cases_skipped_by_cap", 1);
                    return;
                }
                for v in eval_c06(c, &acc) {
                    acc.violation(v);
                }
            });
            level = "model_checking";
            rule = format!("per grammar: breadth-first search over request sequences first(k)/follow(k), k in 0..={kb}, depth <= {depth}, on fresh real FirstCache/FollowCache objects; state = content of all filled cache slots; invariant in every state: every filled slot equals FIRST_k / FOLLOW_k computed by Kleene iteration from the definition (k >= 1; at k = 0 only 'denotes a subset of {{eps, $}}')");
            let c = acc.counters.lock().unwrap().clone();
            extra = json!({
                "states": c.get("states").copied().unwrap_or(0).max(1),
                "transitions": c.get("transitions").copied().unwrap_or(0).max(1),
                "traces_validated_against_impl": c.get("transitions").copied().unwrap_or(0),
                "explanation": "every explored transition is an execution of the real cache objects; there is no separate model",
            });
        }
        "C07" | "C08" => {
            let ks: &[usize] = tier.pick(&[3], &[2, 4]);
            let mut cases = vec![];
            for g in &grams {
                for k in ks {
                    cases.push(Case { gram: g.clone(), k: *k, raw: false });
                }
            }
            let c07 = id == "C07";
            // the families first: they are small and must not be what a wall-clock cap cuts off
            run_families(&ctx, &acc, tier, c07);
            cases.par_iter().for_each(|c| {
                if ctx.expired() {
                    acc.count("cases_skipped_by_cap", 1);
                    return;
                }
                for v in eval_c07_c08(c, c07, &acc) {
                    acc.violation(v);
                }
            });
            level = "exploration";
            rule = if c07 {
                format!("every non-terminal of every grammar of the C05 space accepted with K in {ks:?}: all token strings over T + {{$}} of length <= k+1 are run through the automaton recovered from the generated source (minimized) and through the public unminimized LookaheadDFA; oracle = membership in the reference strong-LL(k) lookahead set of each production. Non-trivial = non-terminals with k >= 1. Second space, without grammars: every assignment of the k-complete token strings over 2-3 terminals (k = 1, 2, 3; strings of length k and shorter ones ending in $) to 2-3 productions or to none, canonical up to production renaming; parol's own from_k_tuples / unite / minimization (hook H6) build the automaton, which is checked the same way.")
            } else {
                format!("every non-terminal of every grammar of the C05 space accepted with K in {ks:?}: every token buffer produced by the real scanner/TokenStream from inputs of <= k+2 tokens over T + one foreign token (EOI padded) is given to the real LookaheadDFA::eval; oracle = 'the buffer begins with a reference lookahead string of p' / 'begins with none'. Non-trivial = non-terminals with >= 2 productions on which both Ok and Err occur. Second space, without grammars: every assignment of the k-complete token strings over 2-3 terminals (k = 1, 2, 3) to 2-3 productions or to none; the minimized automaton parol builds for it is evaluated by the real eval on every buffer of <= k+1 tokens over the terminals plus a foreign token.")
            };
            extra = json!({});
        }
        _ => unreachable!(),
    }
    finish(
        &ctx,
        &acc,
        Finish {
            level,
            rule,
            exhaustive_note: "all grammars of the stated space, all strings/sequences up to the stated bounds, unless capped=true".into(),
            assumptions: vec!["terminal numbering taken from Cfg::get_ordered_terminals (+5), which C18 checks against all generated artefacts".into()],
            extra,
        },
    )
}
