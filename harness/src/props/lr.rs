//! C03 (LALR(1) parsers accept exactly the language and build a derivation) and C04 (conflicts
//! are always reported, resolution stays sound).

use rayon::prelude::*;
use serde_json::{Value, json};

use crate::bind::{Analysis, Child, Event, GenCfg, Node, RunOpts, Stage, generate_and_bind};
use crate::common::*;
use crate::gram::*;
use crate::props::ll::{Sy, transformed_bnf};
use crate::refs::RBnf;
use crate::refs_lr::lalr1_conflicts;

#[derive(serde::Serialize, serde::Deserialize, Clone, Debug)]
pub struct Case {
    pub gram: Gram,
    pub n: usize,
    pub input: Option<Vec<u8>>,
}

fn vio(class: &str, what: String, case: &Case, w: Option<&[u8]>, detail: Value) -> Violation {
    let mut c = case.clone();
    if let Some(w) = w {
        c.input = Some(w.to_vec());
    }
    Violation { class: class.into(), what, case: json!({"case": c, "par": case.gram.to_par()}), detail }
}

pub fn lr_grammars(tier: Tier) -> Vec<Gram> {
    let sp = match tier {
        Tier::Quick => BnfSpace { max_nt: 2, max_t: 2, max_len: 3, max_alts: 3, max_size: 8 },
        Tier::Thorough => BnfSpace { max_nt: 2, max_t: 2, max_len: 3, max_alts: 3, max_size: 9 },
    };
    let sp3 = match tier {
        Tier::Quick => BnfSpace { max_nt: 3, max_t: 2, max_len: 3, max_alts: 2, max_size: 8 },
        Tier::Thorough => BnfSpace { max_nt: 3, max_t: 2, max_len: 3, max_alts: 2, max_size: 10 },
    };
    let mut v = enum_bnf_pre(&sp, true, Pre::WellFormedLr);
    let mut three = enum_bnf_pre(&sp3, true, Pre::WellFormedLr);
    three.retain(|g| g.nts.len() == 3);
    // the order of non-terminal names relative to the order of their productions matters to
    // parol (index = alphabetical order): also the variant with reversed non-start names
    let rev: Vec<Gram> = three
        .iter()
        .map(|g| {
            let mut g2 = g.clone();
            g2.nts = vec!["M".into(), "Z".into(), "Y".into()];
            g2
        })
        .collect();
    v.extend(three);
    v.extend(rev);
    match tier {
        Tier::Quick => {
            v.extend(enum_ebnf(5, 2, 2, false, true));
            v.extend(enum_ebnf(4, 2, 1, true, true));
        }
        Tier::Thorough => {
            v.extend(enum_ebnf(6, 2, 2, false, true));
            v.extend(enum_ebnf(5, 2, 2, true, true));
        }
    }
    v
}

#[derive(Clone, Debug)]
enum RTree {
    N(String, Vec<RTree>),
    T(String, usize),
}
impl RTree {
    fn leaves(&self, out: &mut Vec<(String, usize)>) {
        match self {
            RTree::T(t, s) => out.push((t.clone(), *s)),
            RTree::N(_, c) => c.iter().for_each(|x| x.leaves(out)),
        }
    }
    fn same_as(&self, n: &Node) -> bool {
        match (self, n) {
            (RTree::T(t, s), Node::T(tok)) => *t == tok.text && *s == tok.start,
            (RTree::N(a, ca), Node::N(b, cb)) => {
                let sig: Vec<&Node> = cb.iter().filter(|x| !matches!(x, Node::T(t) if t.eff_skip)).collect();
                a == b && ca.len() == sig.len() && ca.iter().zip(sig.iter()).all(|(x, y)| x.same_as(y))
            }
            _ => false,
        }
    }
}

/// The recorded reductions must build, bottom-up with stack discipline, one tree rooted at the
/// start symbol whose yield is the input: i.e. they are a rightmost derivation in reverse.
fn check_reverse_rightmost(
    events: &[Event],
    bnf: &[(String, Vec<Sy>)],
    start: &str,
    input_tokens: &[String],
    tree: &Node,
) -> Result<usize, String> {
    let mut stack: Vec<RTree> = vec![];
    let mut n = 0;
    for e in events {
        let Event::Action(p, children) = e else { continue };
        n += 1;
        let Some((lhs, rhs)) = bnf.get(*p) else { return Err(format!("reduction by production {p}: out of range")) };
        let syms: Vec<Sy> = children
            .iter()
            .map(|c| match c {
                Child::N(n) => Sy::N(n.clone()),
                Child::T(t) => Sy::T(t.text.clone()),
            })
            .collect();
        if syms != *rhs {
            return Err(format!("reduction {n} by production {p} ({lhs}: {rhs:?}) was called with children {syms:?}"));
        }
        let mut kids: Vec<RTree> = vec![];
        for c in children.iter().rev() {
            match c {
                Child::T(t) => kids.push(RTree::T(t.text.clone(), t.start)),
                Child::N(name) => match stack.pop() {
                    Some(RTree::N(l, k)) if l == *name => kids.push(RTree::N(l, k)),
                    Some(other) => return Err(format!("reduction {n} (production {p}) expects a {name} on the stack, found {other:?}")),
                    None => return Err(format!("reduction {n} (production {p}) expects a {name} on an empty stack")),
                },
            }
        }
        kids.reverse();
        stack.push(RTree::N(lhs.clone(), kids));
    }
    if stack.len() != 1 {
        return Err(format!("{} trees left after all reductions", stack.len()));
    }
    let t = &stack[0];
    match t {
        RTree::N(l, _) if l == start => {}
        _ => return Err(format!("final reduction does not produce the start symbol {start}")),
    }
    let mut leaves = vec![];
    t.leaves(&mut leaves);
    let texts: Vec<String> = leaves.iter().map(|l| l.0.clone()).collect();
    if texts != input_tokens {
        return Err(format!("yield of the reductions {texts:?} differs from the input tokens {input_tokens:?}"));
    }
    if !leaves.windows(2).all(|w| w[0].1 < w[1].1) {
        return Err("token positions in the derivation are not in input order".into());
    }
    // the delivered tree: root "" with exactly one significant child, the same tree
    let Node::N(rn, rc) = tree else { return Err("tree root is a token".into()) };
    if !rn.is_empty() {
        return Err(format!("tree root is named {rn:?}"));
    }
    let sig: Vec<&Node> = rc.iter().filter(|x| !matches!(x, Node::T(t) if t.eff_skip)).collect();
    if sig.len() != 1 {
        return Err(format!("tree root has {} significant children", sig.len()));
    }
    if !t.same_as(sig[0]) {
        return Err("delivered tree differs from the tree built by the reductions".into());
    }
    Ok(n)
}

pub struct Mode {
    pub c03: bool,
}

/// Does some non-terminal of the canonicalized (BNF) grammar derive itself (A =>+ A)?
pub fn canonical_is_cyclic(g: &Gram) -> bool {
    let par = g.to_par();
    let Ok(Ok(gc)) = catch(|| parol::obtain_grammar_config_from_string(&par, false)) else { return false };
    let Ok((nts, prods, _)) = crate::props::transform::cfg_to_prods(&gc.cfg, g) else { return false };
    let b = Bnf { nnt: nts.len(), nt: g.terms.len(), prods: prods.into_iter().map(|(l, mut a)| (l, a.remove(0))).collect() };
    b.cyclic()
}

pub fn eval_case(case: &Case, mode: &Mode, acc: &Acc) -> Vec<Violation> {
    let g = &case.gram;
    let par = g.to_par();
    let mut out = vec![];
    let r = catch(|| generate_and_bind(&par, 1, &GenCfg::default()));
    // reference verdict (only needed for C04, cheap enough to always compute for BNF)
    let (gen_, bound) = match r {
        Err(p) => {
            acc.outcome("generator_panic");
            if mode.c03 {
                out.push(vio(
                    if p.contains("lalry") && canonical_is_cyclic(g) { "lalry_panics_on_cyclic_grammar" } else if p.contains("lalry") { "table_construction_panics_in_lalry" } else { "table_construction_panics" },
                    format!("{}: {}", g.short(), panic_site(&p)),
                    case,
                    None,
                    json!({"panic": p}),
                ));
            }
            return out;
        }
        Ok(Err(e)) => {
            if e.msg.starts_with("BIND:") {
                out.push(vio("machinery_bind", e.msg.clone(), case, None, json!({})));
                return out;
            }
            acc.outcome(match e.stage {
                Stage::Parse => "rejected:parse",
                Stage::Check => "rejected:check",
                Stage::Analysis => "rejected:analysis",
                Stage::Generate => "rejected:generate",
            });
            return out;
        }
        Ok(Ok(x)) => x,
    };
    let Analysis::Lr(_, nconf) = &gen_.analysis else { return out };
    let nconf = *nconf;
    acc.outcome(&format!("table_built resolved_conflicts={}", nconf.min(3)));
    if !mode.c03 {
        // C04 part 1: conflicts of the reference must be reported
        let rb = RBnf::of(&gen_.cfg0);
        let rr = lalr1_conflicts(&rb);
        acc.eval(1);
        if !rr.conflicts.is_empty() {
            acc.distinct(&(g.clone(), 0u8));
            if nconf == 0 {
                out.push(vio(
                    "conflict_not_reported",
                    format!("{}: reference LALR(1) construction finds {} conflict(s) ({}), parol built a table and reported none", g.short(), rr.conflicts.len(), rr.conflicts[0]),
                    case,
                    None,
                    json!({"reference_conflicts": rr.conflicts}),
                ));
            }
            if acc.want_sample() {
                acc.sample(json!({"grammar": g.short(), "reference_conflicts": rr.conflicts, "parol_resolved": nconf}));
            }
        }
        acc.outcome(&format!("reference_conflicts={} parol_resolved={}", !rr.conflicts.is_empty(), nconf > 0));
    } else if nconf > 0 {
        return out; // C03 only speaks about conflict-free tables
    }
    let lang = g.lang(case.n);
    let bnf = transformed_bnf(&gen_);
    let start = gen_.gc.cfg.st.clone();
    let inputs: Vec<Vec<u8>> = match &case.input {
        Some(w) => vec![w.clone()],
        None => all_strings(g.terms.len(), true, case.n),
    };
    let mut n_sent = 0u64;
    let mut n_non = 0u64;
    for w in &inputs {
        let in_lang = lang.contains(w);
        let text = g.render_input(w, if w.len() % 2 == 0 { "" } else { " " });
        let o = match catch(|| bound.parse(&text, &RunOpts::default())) {
            Ok(o) => o,
            Err(_) => {
                acc.outcome("parser_panic");
                continue;
            }
        };
        acc.eval(1);
        if in_lang { n_sent += 1 } else { n_non += 1 }
        if mode.c03 {
            if o.ok != in_lang {
                let class = if o.ok { "accepts_non_sentence" } else { "rejects_sentence" };
                out.push(vio(
                    class,
                    format!("{} | input {:?} LR parse ok={} but sentence={}", g.short(), text, o.ok, in_lang),
                    case,
                    Some(w),
                    json!({"input": text, "ok": o.ok, "err": o.err}),
                ));
            } else if o.ok {
                let toks: Vec<String> = w.iter().map(|t| g.term_text[*t as usize].clone()).collect();
                if let Some(pe) = &o.protocol_error {
                    out.push(vio("tree_protocol", format!("{} | input {:?}: {pe}", g.short(), text), case, Some(w), json!({})));
                } else {
                    match check_reverse_rightmost(&o.events, &bnf, &start, &toks, o.tree.as_ref().unwrap()) {
                        Ok(k) => acc.outcome(&format!("derivation_ok reductions={}", k.min(12))),
                        Err(m) => out.push(vio(
                            "not_a_reverse_rightmost_derivation",
                            format!("{} | input {:?}: {m}", g.short(), text),
                            case,
                            Some(w),
                            json!({"input": text, "why": m}),
                        )),
                    }
                }
            }
        } else if o.ok && !in_lang {
            out.push(vio(
                "resolved_table_accepts_non_sentence",
                format!("{} | input {:?} accepted by the table (resolved conflicts: {nconf}) but not a sentence", g.short(), text),
                case,
                Some(w),
                json!({"input": text, "resolved_conflicts": nconf}),
            ));
        }
    }
    if mode.c03 && n_sent > 0 && n_non > 0 {
        acc.distinct_n(n_sent + n_non);
        acc.fallback(|| json!({"grammar": g.short(), "inputs": inputs.len()}));
        if acc.want_sample() && n_sent > 3 {
            acc.sample(json!({"grammar": g.short(), "inputs": inputs.len(), "sentences": n_sent}));
        }
    }
    if !mode.c03 && nconf > 0 {
        acc.distinct(&(g.clone(), 1u8));
    }
    out
}

pub fn run(id: &str, tier: Tier, replay: Option<&str>) -> i32 {
    let mode = Mode { c03: id == "C03" };
    if let Some(p) = replay {
        let v = read_replay(p);
        let case: Case = serde_json::from_value(v["case"].clone()).expect("bad replay case");
        return replay_verdict(id, p, || eval_case(&case, &mode, &Acc::default()));
    }
    let ctx = Ctx::new(id, tier);
    let acc = Acc::default();
    let mut grams = lr_grammars(tier);
    // recursive start symbols also with every occurrence decorated (clipped / member name / user type):
    // decorations must not change what the parser accepts or how it derives
    let rec: Vec<Gram> = grams.iter().filter(|g| g.is_bnf() && g.deco.is_empty() && g.prods.iter().any(|(_, a)| a.iter().any(|s| s.contains(&Fac::N(0))))).cloned().collect();
    for (i, g) in rec.iter().enumerate() {
        for (j, d) in ["^", "@m", " : crate::T", "@m : crate::T"].iter().enumerate() {
            if tier == Tier::Quick && (i + j) % 4 != 0 {
                continue;
            }
            let mut g2 = g.clone();
            g2.deco = vec![d.to_string()];
            grams.push(g2);
        }
    }
    let n = tier.pick(5, 7);
    acc.count("grammars_enumerated", grams.len() as u64);
    let cases: Vec<Case> = grams.into_iter().map(|g| Case { gram: g, n, input: None }).collect();
    cases.par_iter().for_each(|c| {
        if ctx.expired() {
            acc.count("cases_skipped_by_cap", 1);
            return;
        }
        for v in eval_case(c, &mode, &acc) {
            acc.violation(v);
        }
    });
    let rule = if mode.c03 {
        format!("every productive, reachable canonical BNF grammar (left recursion and start symbols on right-hand sides included, recursive start symbols also with their occurrences decorated by ^ / @m / : type) of the stated space plus EBNF bodies, with %grammar_type 'LALR(1)'; table construction inside catch_unwind; for every table built without resolved conflicts: every token string of length <= {n} over the terminals plus one foreign token through the real scanner and LRParser; oracle: membership in L<={n}; on success the reductions, replayed on a stack, must build one tree rooted at the start symbol whose yield is the input (reverse rightmost derivation) and equal the delivered tree. Non-trivial = runs on grammars with both sentences and non-sentences.")
    } else {
        format!("same grammar space; oracle 1: if a textbook LALR(1) construction (canonical LR(1) item sets merged by core) finds a conflict, parol must reject the grammar or report >= 1 resolved conflict; oracle 2: every input of length <= {n} accepted by any table parol builds is in L<={n}. Non-trivial = grammars with a reference conflict or a resolved conflict.")
    };
    finish(
        &ctx,
        &acc,
        Finish {
            level: "exploration",
            rule,
            exhaustive_note: "all grammars of the stated space and all inputs up to the stated length unless capped=true".into(),
            assumptions: vec!["generated tables evaluated from the generated source text (see C21/C22)".into()],
            extra: json!({}),
        },
    )
}
