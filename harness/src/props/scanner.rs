//! C13 (tokenization by the documented rules, independent of lookahead size / consumption
//! schedule), C14 (losslessness), C15 (comments), C16 (unmatched input), C17 (skipped tokens).

use rayon::prelude::*;
use serde_json::{Value, json};
use std::collections::BTreeSet;

use crate::bind::{Bound, Event, GenCfg, Node, RunOpts, Tok, generate_and_bind};
use crate::common::*;
use crate::scan::*;

const INVALID_TOKEN: u16 = u16::MAX - 1;

#[derive(serde::Serialize, serde::Deserialize, Clone, Debug)]
pub struct Case {
    pub cfg: ScanCfg,
    pub alphabet: Vec<String>,
    pub n: usize,
    pub text: Option<String>,
    /// C14 parser reuse: the text parsed first with the same parser object
    #[serde(default)]
    pub reuse_first: Option<String>,
}

fn vio(class: &str, what: String, case: &Case, text: Option<&str>, detail: Value) -> Violation {
    let mut c = case.clone();
    if let Some(t) = text {
        c.text = Some(t.to_string());
    }
    Violation { class: class.into(), what, case: json!({"case": c, "par": case.cfg.to_par()}), detail }
}

pub fn texts_over(alpha: &[String], n: usize) -> Vec<String> {
    let mut res = vec![String::new()];
    let mut layer = vec![String::new()];
    for _ in 0..n {
        let mut nx = vec![];
        for w in &layer {
            for a in alpha {
                nx.push(format!("{w}{a}"));
            }
        }
        res.extend(nx.iter().cloned());
        layer = nx;
    }
    res
}

/// map of harness terminal index -> real token type, via Cfg::get_ordered_terminals
fn term_types(g: &crate::bind::Generated, cfg: &ScanCfg) -> Vec<Option<u16>> {
    let ord = g.gc.cfg.get_ordered_terminals_owned();
    cfg.terms
        .iter()
        .map(|t| {
            let (text, kind) = par_literal(&t.par);
            let la = t.la.as_ref().map(|(pos, p, _)| {
                let (lt, lk) = par_literal(p);
                (*pos, lt, lk)
            });
            ord.iter()
                .position(|(ot, ok, ol, _)| {
                    *ot == text
                        && ok.behaves_like(kind)
                        && match (ol, &la) {
                            (None, None) => true,
                            (Some(l), Some((pos, lt, lk))) => l.is_positive == *pos && l.pattern == *lt && l.kind.behaves_like(*lk),
                            _ => false,
                        }
                })
                .map(|p| (p + 5) as u16)
        })
        .collect()
}

fn par_literal(p: &str) -> (String, parol::TerminalKind) {
    let inner = p[1..p.len() - 1].to_string();
    match p.chars().next().unwrap() {
        '\'' => (inner, parol::TerminalKind::Raw),
        '/' => (inner, parol::TerminalKind::Regex),
        _ => (inner, parol::TerminalKind::Legacy),
    }
}

/// The standard parser protocol: take_skip_tokens, lookahead(0), consume — until EOI.
/// `pre` = per consume step the lookahead indices to call first (schedule).
pub fn deliver(bound: &Bound, text: &str, k: usize, pre: &[Vec<usize>]) -> Result<Vec<Tok>, String> {
    let mut ts = bound.token_stream(text, k);
    let mut out = vec![];
    let mut step = 0;
    loop {
        if let Some(ls) = pre.get(step) {
            for i in ls {
                if *i < k {
                    ts.lookahead(*i).map_err(|e| format!("lookahead({i}): {e:?}"))?;
                }
            }
        }
        for t in ts.take_skip_tokens() {
            out.push(Tok::of(&t));
        }
        let t = ts.lookahead(0).map_err(|e| format!("lookahead(0): {e:?}"))?;
        if t.token_type == 0 {
            break;
        }
        for t in ts.take_skip_tokens() {
            out.push(Tok::of(&t));
        }
        let c = ts.consume().map_err(|e| format!("consume: {e:?}"))?;
        out.push(Tok::of(&c));
        step += 1;
        if step > text.len() + 5 {
            return Err("token stream does not reach end of input".into());
        }
    }
    Ok(out)
}

#[derive(Clone, Debug, PartialEq, Eq)]
struct Norm {
    kind: RKind,
    start: usize,
    end: usize,
}

fn norm_ref(v: &[RTok]) -> Vec<Norm> {
    let mut out: Vec<Norm> = vec![];
    for t in v {
        if t.kind == RKind::Unmatched {
            if let Some(l) = out.last_mut() {
                if l.kind == RKind::Unmatched && l.end == t.start {
                    l.end = t.end;
                    continue;
                }
            }
        }
        out.push(Norm { kind: t.kind.clone(), start: t.start, end: t.end });
    }
    out
}

fn norm_real(v: &[Tok], types: &[Option<u16>], err_tok: u16) -> Vec<Norm> {
    let mut out: Vec<Norm> = vec![];
    for t in v {
        let kind = match t.ty {
            1 => RKind::Newline,
            2 => RKind::Ws,
            3 => RKind::LineComment,
            4 => RKind::BlockComment,
            x if x == INVALID_TOKEN || x == err_tok => RKind::Unmatched,
            x => match types.iter().position(|y| *y == Some(x)) {
                Some(i) => RKind::Term(i),
                None => RKind::Term(1000 + x as usize),
            },
        };
        if kind == RKind::Unmatched {
            if let Some(l) = out.last_mut() {
                if l.kind == RKind::Unmatched && l.end == t.start {
                    l.end = t.end;
                    continue;
                }
            }
        }
        out.push(Norm { kind, start: t.start, end: t.end });
    }
    out
}

fn fmt_norm(v: &[Norm], text: &str) -> String {
    v.iter().map(|n| format!("{:?}{:?}", n.kind, &text[n.start.min(text.len())..n.end.min(text.len())])).collect::<Vec<_>>().join(" ")
}

// ---------------------------------------------------------------------------------------------
// configuration spaces
// ---------------------------------------------------------------------------------------------

fn t(par: &str, regex: &str) -> TermSpec {
    TermSpec { par: par.into(), regex: regex.into(), la: None, states: vec![0], more: vec![] }
}
fn tla(par: &str, regex: &str, pos: bool, lpar: &str, lregex: &str) -> TermSpec {
    TermSpec { par: par.into(), regex: regex.into(), la: Some((pos, lpar.into(), lregex.into())), states: vec![0], more: vec![] }
}

fn term_menu() -> Vec<TermSpec> {
    vec![
        t("'a'", "a"),
        t("'b'", "b"),
        t("\"ab\"", "ab"),
        t("/a+/", "a+"),
        t("/a|b/", "a|b"),
        t("/[ab]+/", "[ab]+"),
        t("/a*b/", "a*b"),
        t("'.'", r"\."),
        t("\"b.\"", "b."),
        t("/a/", "a"),
        tla("'a'", "a", true, "'b'", "b"),
        tla("'a'", "a", false, "'b'", "b"),
        tla("/a+/", "a+", true, "/b/", "b"),
        tla("/[ab]+/", "[ab]+", false, "'a'", "a"),
        tla("'b'", "b", true, "\".\"", "."),
    ]
}

/// all single-state configurations with 1..=max_terms distinct terminals of the menu (ordered)
fn single_state_cfgs(max_terms: usize, lalr: bool) -> Vec<ScanCfg> {
    let menu = term_menu();
    let mut out = vec![];
    let n = menu.len();
    let mut idx: Vec<Vec<usize>> = (0..n).map(|i| vec![i]).collect();
    let mut all: Vec<Vec<usize>> = idx.clone();
    for _ in 1..max_terms {
        let mut nx = vec![];
        for v in &idx {
            for j in 0..n {
                if !v.contains(&j) {
                    let mut w = v.clone();
                    w.push(j);
                    nx.push(w);
                }
            }
        }
        all.extend(nx.iter().cloned());
        idx = nx;
    }
    for v in all {
        let terms: Vec<TermSpec> = v.iter().map(|i| menu[*i].clone()).collect();
        // parol identifies terminals by (text, kind class, lookahead): skip configs where two
        // entries denote the same terminal
        let mut ids = BTreeSet::new();
        let mut dup = false;
        for t in &terms {
            let (text, kind) = par_literal(&t.par);
            let class = matches!(kind, parol::TerminalKind::Raw);
            if !ids.insert((text, class, t.la.as_ref().map(|l| (l.0, l.1.clone())))) {
                dup = true;
            }
        }
        if dup {
            continue;
        }
        out.push(ScanCfg { terms, modes: vec![ModeSpec::plain("INITIAL")], lalr, raw_comment_literals: true, body: None });
    }
    out
}

pub fn multi_state_cfgs_pub(lalr: bool) -> Vec<ScanCfg> {
    multi_state_cfgs(lalr)
}

/// two/three-state configurations exercising enter / push / pop
fn multi_state_cfgs(lalr: bool) -> Vec<ScanCfg> {
    let mut out = vec![];
    let a = |states: Vec<usize>| TermSpec { states, ..t("'a'", "a") };
    let b = |states: Vec<usize>| TermSpec { states, ..t("'b'", "b") };
    let ab = |states: Vec<usize>| TermSpec { states, ..t("/[ab]+/", "[ab]+") };
    let aplus = |states: Vec<usize>| TermSpec { states, ..t("/a+/", "a+") };
    for sw0 in [Switch::Enter(1), Switch::Push(1)] {
        for sw1 in [Switch::Enter(0), Switch::Pop, Switch::Push(0), Switch::Push(1)] {
            for variant in 0..4 {
                let terms = match variant {
                    0 => vec![a(vec![0, 1]), b(vec![0, 1])],
                    1 => vec![a(vec![0, 1]), b(vec![1]), aplus(vec![1])],
                    2 => vec![a(vec![0]), b(vec![0, 1]), ab(vec![1])],
                    _ => vec![a(vec![0, 1]), b(vec![0]), aplus(vec![0])],
                };
                let mut m0 = ModeSpec::plain("INITIAL");
                let mut m1 = ModeSpec::plain("X");
                // T0 switches in INITIAL; in X the terminal valid there switches back
                m0.on.push((0, sw0.clone()));
                let back = if terms[1].states.contains(&1) { 1 } else { 0 };
                m1.on.push((back, sw1.clone()));
                if variant % 2 == 1 {
                    m1.auto_ws = false;
                }
                out.push(ScanCfg { terms, modes: vec![m0, m1], lalr, raw_comment_literals: true, body: None });
            }
        }
    }
    // the same terminal in several occurrences with different state lists: parol accumulates the states
    // of all occurrences (every order of two lists that overlap, contain each other, or are disjoint)
    let lists: Vec<Vec<usize>> = vec![vec![0], vec![1], vec![0, 1], vec![2], vec![0, 2], vec![1, 2], vec![0, 1, 2]];
    for (i1, l1) in lists.iter().enumerate() {
        for (i2, l2) in lists.iter().enumerate() {
            // (the scanner is generated the same way for both grammar types: LALR gets every other pair)
            if l1 == l2 || (lalr && (i1 + i2) % 2 == 0) {
                continue;
            }
            let mut ta = a(l1.clone());
            ta.more = vec![l2.clone()];
            // b everywhere: switches INITIAL -> X -> Y -> INITIAL, so every state is visited
            let tb = b(vec![0, 1, 2]);
            // the second occurrence is written inline behind a separator terminal (two alias productions
            // for one terminal are rejected by parol)
            let tz = t("'z'", "z");
            let names = ["INITIAL", "X", "Y"];
            let pre = if *l2 == vec![0] { String::new() } else { format!("<{}>", l2.iter().map(|x| names[*x]).collect::<Vec<_>>().join(", ")) };
            let mut m0 = ModeSpec::plain("INITIAL");
            let mut m1 = ModeSpec::plain("X");
            let mut m2 = ModeSpec::plain("Y");
            m0.on.push((1, Switch::Enter(1)));
            m1.on.push((1, Switch::Enter(2)));
            m2.on.push((1, Switch::Enter(0)));
            out.push(ScanCfg { terms: vec![ta, tb, tz], modes: vec![m0, m1, m2], lalr, raw_comment_literals: true, body: Some(format!("{{ T0 | T1 }} [ T2 {pre}'a' ]")) });
        }
    }
    // three states with nested push/pop; pop in INITIAL on an empty stack
    let terms = vec![a(vec![0, 1, 2]), b(vec![0, 1, 2])];
    for p in 0..3 {
        let mut m0 = ModeSpec::plain("INITIAL");
        let mut m1 = ModeSpec::plain("X");
        let mut m2 = ModeSpec::plain("Y");
        m0.on.push((0, Switch::Push(1)));
        m0.on.push((1, Switch::Pop));
        m1.on.push((0, if p == 0 { Switch::Push(2) } else { Switch::Enter(2) }));
        m1.on.push((1, Switch::Pop));
        m2.on.push((1, Switch::Pop));
        if p == 2 {
            m2.on.push((0, Switch::Push(0)));
        }
        out.push(ScanCfg { terms: terms.clone(), modes: vec![m0, m1, m2], lalr, raw_comment_literals: true, body: None });
    }
    out
}

// ---------------------------------------------------------------------------------------------
// C13
// ---------------------------------------------------------------------------------------------

fn schedules(k: usize, depth: usize) -> Vec<Vec<Vec<usize>>> {
    // per consume step one of: none, L(0), L(k-1), all ascending, all descending
    let opts: Vec<Vec<usize>> = vec![vec![], vec![0], vec![k - 1], (0..k).collect(), (0..k).rev().collect()];
    let mut res: Vec<Vec<Vec<usize>>> = vec![vec![]];
    for _ in 0..depth {
        let mut nx = vec![];
        for s in &res {
            for o in &opts {
                let mut z = s.clone();
                z.push(o.clone());
                nx.push(z);
            }
        }
        res = nx;
    }
    res
}

fn eval_c13(case: &Case, tier: Tier, acc: &Acc) -> Vec<Violation> {
    let mut out = vec![];
    let par = case.cfg.to_par();
    let (g, bound) = match catch(|| generate_and_bind(&par, 3, &GenCfg::default())) {
        Ok(Ok(x)) => x,
        Ok(Err(e)) => {
            acc.outcome(&format!("rejected:{:?}", e.stage));
            return out;
        }
        Err(_) => {
            acc.outcome("generator_panic(C26)");
            return out;
        }
    };
    acc.outcome("accepted");
    let types = term_types(&g, &case.cfg);
    if types.iter().any(|t| t.is_none()) {
        out.push(vio("machinery_terminal_mapping", format!("{}: cannot map terminals {:?}", case.cfg.short(), types), case, None, json!({})));
        return out;
    }
    let err_tok = (bound.tnames.len() - 1) as u16;
    let rs = RefScanner::new(&case.cfg);
    let texts = match &case.text {
        Some(t) => vec![t.clone()],
        None => texts_over(&case.alphabet, case.n),
    };
    let mut kinds_seen = BTreeSet::new();
    let sched_depth = tier.pick(3, 4);
    for text in &texts {
        let reference = norm_ref(&rs.scan(text));
        let mut baseline: Option<Vec<Norm>> = None;
        for k in 1..=3usize {
            acc.eval(1);
            let real = match catch(|| deliver(&bound, text, k, &[])) {
                Ok(Ok(v)) => v,
                Ok(Err(m)) => {
                    out.push(vio("token_stream_error", format!("{} | text {:?} k={k}: {m}", case.cfg.short(), text), case, Some(text), json!({"k": k})));
                    break;
                }
                Err(p) => {
                    out.push(vio("token_stream_panic", format!("{} | text {:?} k={k}: {}", case.cfg.short(), text, panic_site(&p)), case, Some(text), json!({"k": k})));
                    break;
                }
            };
            let nr = norm_real(&real, &types, err_tok);
            if k == 1 {
                for n in &nr {
                    kinds_seen.insert(format!("{:?}", n.kind));
                }
                if nr != reference {
                    let class = classify_c13(&case.cfg, &reference, &nr, text);
                    out.push(vio(
                        &class,
                        format!("{} | text {:?}: scanner delivers [{}], documented rules give [{}]", case.cfg.short(), text, fmt_norm(&nr, text), fmt_norm(&reference, text)),
                        case,
                        Some(text),
                        json!({"real": fmt_norm(&nr, text), "reference": fmt_norm(&reference, text)}),
                    ));
                    break;
                }
                baseline = Some(nr);
            } else if Some(&nr) != baseline.as_ref() {
                out.push(vio(
                    "tokens_depend_on_lookahead_size",
                    format!("{} | text {:?}: k={k} delivers [{}], k=1 delivers [{}]", case.cfg.short(), text, fmt_norm(&nr, text), fmt_norm(baseline.as_ref().unwrap(), text)),
                    case,
                    Some(text),
                    json!({"k": k}),
                ));
                break;
            }
            // consumption schedules (only where there is something to schedule)
            // (the repeated-occurrence family is about which rules a mode gets, not about delivery: the quick
            // tier does not explore schedules on it)
            let family_only_static = tier == Tier::Quick && case.cfg.terms.iter().any(|t| !t.more.is_empty());
            if !family_only_static && k >= 2 && real.iter().filter(|t| !t.eff_skip).count() >= 2 && text.chars().count() <= case.n.saturating_sub(1).max(3) {
                for s in schedules(k, sched_depth) {
                    acc.eval(1);
                    acc.count("schedules", 1);
                    match catch(|| deliver(&bound, text, k, &s)) {
                        Ok(Ok(v)) => {
                            if Some(&norm_real(&v, &types, err_tok)) != baseline.as_ref() {
                                out.push(vio(
                                    "tokens_depend_on_consumption_schedule",
                                    format!("{} | text {:?} k={k} schedule {:?}: delivers [{}]", case.cfg.short(), text, s, fmt_norm(&norm_real(&v, &types, err_tok), text)),
                                    case,
                                    Some(text),
                                    json!({"k": k, "schedule": s}),
                                ));
                                break;
                            }
                        }
                        Ok(Err(m)) => {
                            out.push(vio("token_stream_error", format!("{} | text {:?} k={k} schedule {:?}: {m}", case.cfg.short(), text, s), case, Some(text), json!({})));
                            break;
                        }
                        Err(p) => {
                            out.push(vio("token_stream_panic", format!("{} | text {:?}: {}", case.cfg.short(), text, panic_site(&p)), case, Some(text), json!({})));
                            break;
                        }
                    }
                }
            }
        }
        if out.len() >= 3 {
            break;
        }
    }
    if kinds_seen.len() >= 3 {
        acc.distinct(&case.cfg);
        acc.fallback(|| json!({"config": case.cfg.short(), "texts": texts.len()}));
        if acc.want_sample() && case.cfg.modes.len() > 1 {
            acc.sample(json!({"config": case.cfg.short(), "texts": texts.len(), "token_kinds_seen": kinds_seen}));
        }
    }
    out
}

/// narrow root-cause classes for tokenization differences
fn classify_c13(cfg: &ScanCfg, reference: &[Norm], real: &[Norm], text: &str) -> String {
    // first differing token
    let i = reference.iter().zip(real.iter()).position(|(a, b)| a != b).unwrap_or(reference.len().min(real.len()));
    let r = reference.get(i);
    let q = real.get(i);
    if let (Some(r), Some(q)) = (r, q) {
        if r.start == q.start {
            // newline not matched by the error token under auto_newline_off is C16's finding
            if r.kind == RKind::Unmatched && q.kind == RKind::Unmatched {
                return "unmatched_segmentation".into();
            }
            if let (RKind::Term(x), RKind::Term(y)) = (&r.kind, &q.kind) {
                if r.end == q.end {
                    return format!("priority_differs(ref={},real={})", cfg.terms[*x].par, cfg.terms.get(*y).map(|t| t.par.clone()).unwrap_or_default());
                }
                if cfg.terms[*x].la.is_some() || cfg.terms.get(*y).is_some_and(|t| t.la.is_some()) {
                    return "lookahead_terminal_length_differs".into();
                }
                return "match_length_differs".into();
            }
        }
    }
    let _ = text;
    "tokenization_differs".into()
}


// ---------------------------------------------------------------------------------------------
// C14
// ---------------------------------------------------------------------------------------------

fn pos_of(text: &str, off: usize) -> (u32, u32) {
    let before = &text[..off];
    let line = 1 + before.matches('\n').count() as u32;
    let col = 1 + before.rsplit('\n').next().unwrap_or("").chars().count() as u32;
    (line, col)
}

fn check_token_geometry(toks: &[Tok], text: &str) -> Result<(), String> {
    let mut pos = 0usize;
    for t in toks {
        if t.start != pos {
            return Err(format!("token {:?}@{}..{} does not start where the previous one ended ({pos})", t.text, t.start, t.end));
        }
        if t.end < t.start || t.end > text.len() || !text.is_char_boundary(t.start) || !text.is_char_boundary(t.end) {
            return Err(format!("token {:?} has invalid range {}..{}", t.text, t.start, t.end));
        }
        if text[t.start..t.end] != t.text {
            return Err(format!("token text {:?} differs from input[{}..{}] = {:?}", t.text, t.start, t.end, &text[t.start..t.end]));
        }
        if t.ty != INVALID_TOKEN {
            let (l, c) = pos_of(text, t.start);
            let (el, ec) = pos_of(text, t.end);
            if (t.line, t.col) != (l, c) || (t.end_line, t.end_col) != (el, ec) {
                let after_gap = toks.iter().any(|g| g.ty == INVALID_TOKEN && g.end <= t.start);
                return Err(format!(
                    "token {:?}@{}..{} reports line/column {}:{}-{}:{}, the text says {l}:{c}-{el}:{ec}{}",
                    t.text, t.start, t.end, t.line, t.col, t.end_line, t.end_col,
                    if after_gap { " (after_unmatched_text)" } else { "" }
                ));
            }
        }
        pos = t.end;
    }
    if pos != text.len() {
        return Err(format!("tokens end at {pos}, input has {} bytes (trailing text {:?} lost)", text.len(), &text[pos..]));
    }
    Ok(())
}

fn eval_c14(case: &Case, acc: &Acc) -> Vec<Violation> {
    let mut out = vec![];
    let par = case.cfg.to_par();
    let Ok(Ok((_g, bound))) = catch(|| generate_and_bind(&par, 3, &GenCfg::default())) else {
        acc.outcome("not_accepted");
        return out;
    };
    acc.outcome("accepted");
    let texts = match &case.text {
        Some(t) => vec![t.clone()],
        None => texts_over(&case.alphabet, case.n),
    };
    let mut trees = 0;
    let mut gaps = 0;
    for text in &texts {
        acc.eval(1);
        let toks = match catch(|| deliver(&bound, text, bound.stream_k, &[])) {
            Ok(Ok(v)) => v,
            Ok(Err(m)) => {
                out.push(vio("token_stream_error", format!("{} | text {:?}: {m}", case.cfg.short(), text), case, Some(text), json!({})));
                continue;
            }
            Err(p) => {
                out.push(vio("token_stream_panic", format!("{} | text {:?}: {}", case.cfg.short(), text, panic_site(&p)), case, Some(text), json!({})));
                continue;
            }
        };
        if toks.iter().any(|t| t.ty == INVALID_TOKEN) {
            gaps += 1;
        }
        if let Err(m) = check_token_geometry(&toks, text) {
            let class = if m.contains("trailing text") {
                "trailing_unmatched_text_lost"
            } else if m.contains("line/column") {
                // scnr2 advances its line/column counters over matched text only
                if m.contains("(after_unmatched_text)") { "line_column_wrong_after_unmatched_text" } else { "line_column_wrong" }
            } else if m.contains("does not start where") {
                "tokens_not_contiguous"
            } else {
                "token_geometry"
            };
            out.push(vio(class, format!("{} | text {:?}: {m}", case.cfg.short(), text), case, Some(text), json!({"why": m})));
            if prune_by_class(&mut out, 3) > 60 {
                break;
            }
            continue;
        }
        // the tree of a successful parse
        match catch(|| bound.parse(text, &RunOpts::default())) {
            Ok(o) if o.ok => {
                trees += 1;
                let mut leaves = vec![];
                o.tree.as_ref().unwrap().leaves(&mut leaves);
                let a: Vec<(u16, usize, usize)> = leaves.iter().map(|t| (t.ty, t.start, t.end)).collect();
                let b: Vec<(u16, usize, usize)> = toks.iter().map(|t| (t.ty, t.start, t.end)).collect();
                if a != b {
                    let class = if a.len() < b.len() { "tree_misses_tokens" } else { "tree_leaves_differ_from_tokens" };
                    out.push(vio(
                        class,
                        format!("{} | text {:?}: tree leaves {:?} but token stream delivered {:?}", case.cfg.short(), text, a, b),
                        case,
                        Some(text),
                        json!({"leaves": format!("{a:?}"), "tokens": format!("{b:?}")}),
                    ));
                }
            }
            _ => {}
        }
        if prune_by_class(&mut out, 3) > 60 {
            break;
        }
    }
    // one parser object used for two inputs in a row (also after a failed parse): the second run must
    // deliver what a fresh parser delivers -- verdict and tree
    if case.text.is_none() || case.reuse_first.is_some() {
        let short: Vec<String> = match (&case.reuse_first, &case.text) {
            (Some(_), Some(t)) => vec![t.clone()],
            _ => texts_over(&case.alphabet, 2),
        };
        let firsts: Vec<String> = match &case.reuse_first {
            Some(f) => vec![f.clone()],
            None => short.clone(),
        };
        'reuse: for w2 in &short {
            let Ok(fresh) = catch(|| bound.parse(w2, &RunOpts::default())) else { continue };
            for w1 in &firsts {
                acc.eval(1);
                acc.count("parser_reuse_pairs", 1);
                let Ok(mut both) = catch(|| bound.parse_reusing(&[w1.as_str(), w2.as_str()], &RunOpts::default())) else { continue };
                let second = both.pop().unwrap();
                let same_tree = match (&fresh.tree, &second.tree) {
                    (Some(a), Some(b)) => {
                        let (mut la, mut lb) = (vec![], vec![]);
                        a.leaves(&mut la);
                        b.leaves(&mut lb);
                        la.iter().map(|t| (t.ty, t.start, t.end)).collect::<Vec<_>>() == lb.iter().map(|t| (t.ty, t.start, t.end)).collect::<Vec<_>>()
                    }
                    (None, None) => true,
                    _ => false,
                };
                if fresh.ok != second.ok || !same_tree {
                    let mut c = case.clone();
                    c.reuse_first = Some(w1.clone());
                    out.push(vio(
                        "reused_parser_delivers_another_tree",
                        format!("{} | text {:?} parsed after {:?} with the same parser object: ok={} (fresh parser: ok={}), tree leaves equal: {same_tree}", case.cfg.short(), w2, w1, second.ok, fresh.ok),
                        &c,
                        Some(w2),
                        json!({"first": w1}),
                    ));
                    break 'reuse;
                }
            }
        }
    }
    if trees > 0 {
        acc.distinct(&case.cfg);
        acc.count("successful_parses_with_tree_compared", trees);
        acc.count("texts_with_gap_tokens", gaps);
        acc.fallback(|| json!({"config": case.cfg.short(), "texts": texts.len(), "trees_compared": trees}));
        if acc.want_sample() && gaps > 0 {
            acc.sample(json!({"config": case.cfg.short(), "texts": texts.len(), "trees_compared": trees, "texts_with_unmatched_gaps": gaps}));
        }
    }
    out
}

fn c14_cfgs(tier: Tier) -> Vec<ScanCfg> {
    let mut v = vec![];
    for lalr in [false, true] {
        let mut base = single_state_cfgs(tier.pick(1, 2), lalr);
        base.extend(multi_state_cfgs(lalr).into_iter().step_by(tier.pick(3, 1)));
        for (i, c) in base.into_iter().enumerate() {
            // variants: plain, allow_unmatched, comments, no auto ws/nl
            let mut c1 = c.clone();
            c1.modes[0].allow_unmatched = true;
            let mut c2 = c.clone();
            c2.modes[0].line_comments = vec!["#".into()];
            c2.modes[0].block_comments = vec![("(".into(), ")".into())];
            let mut c3 = c.clone();
            c3.modes[0].auto_nl = false;
            c3.modes[0].allow_unmatched = i % 2 == 0;
            let mut c4 = c.clone();
            c4.modes[0].auto_ws = false;
            c4.modes[0].allow_unmatched = i % 2 == 1;
            v.extend([c, c1, c2, c3, c4]);
        }
    }
    v
}

// ---------------------------------------------------------------------------------------------
// C16
// ---------------------------------------------------------------------------------------------

fn c16_cfgs() -> Vec<ScanCfg> {
    let mut v = vec![];
    for lalr in [false, true] {
        for auto_nl in [true, false] {
            for auto_ws in [true, false] {
                for allow in [false, true] {
                    for body in [None, Some("T0 T1".to_string()), Some("T0 { T1 }".to_string())] {
                        let mut m = ModeSpec::plain("INITIAL");
                        m.auto_nl = auto_nl;
                        m.auto_ws = auto_ws;
                        m.allow_unmatched = allow;
                        v.push(ScanCfg { terms: vec![t("'a'", "a"), t("'b'", "b")], modes: vec![m], lalr, raw_comment_literals: true, body });
                    }
                }
            }
        }
        // a second state with different settings
        for allow0 in [false, true] {
            for allow1 in [false, true] {
                let mut m0 = ModeSpec::plain("INITIAL");
                m0.allow_unmatched = allow0;
                m0.on.push((0, Switch::Enter(1)));
                let mut m1 = ModeSpec::plain("X");
                m1.allow_unmatched = allow1;
                m1.auto_nl = false;
                m1.on.push((1, Switch::Enter(0)));
                let a = TermSpec { states: vec![0, 1], ..t("'a'", "a") };
                let b = TermSpec { states: vec![0, 1], ..t("'b'", "b") };
                v.push(ScanCfg { terms: vec![a, b], modes: vec![m0, m1], lalr, raw_comment_literals: true, body: None });
            }
        }
    }
    v
}

fn expected_accept(cfg: &ScanCfg, sig: &[usize]) -> bool {
    match cfg.body.as_deref() {
        None => true,
        Some("T0 T1") => sig == [0, 1],
        Some("T0 { T1 }") => !sig.is_empty() && sig[0] == 0 && sig[1..].iter().all(|x| *x == 1),
        _ => true,
    }
}

fn eval_c16(case: &Case, acc: &Acc) -> Vec<Violation> {
    let mut out = vec![];
    let par = case.cfg.to_par();
    let Ok(Ok((_g, bound))) = catch(|| generate_and_bind(&par, 3, &GenCfg::default())) else {
        acc.outcome("not_accepted");
        return out;
    };
    acc.outcome("accepted");
    let rs = RefScanner::new(&case.cfg);
    let texts = match &case.text {
        Some(t) => vec![t.clone()],
        None => texts_over(&case.alphabet, case.n),
    };
    let mut both = (false, false);
    for text in &texts {
        let r = rs.scan(text);
        // unmatched text in a state without allow_unmatched?
        let forbidden: Vec<&RTok> = r.iter().filter(|t| t.kind == RKind::Unmatched && !case.cfg.modes[t.mode].allow_unmatched).collect();
        let allowed_gap: Vec<&RTok> = r.iter().filter(|t| t.kind == RKind::Unmatched && case.cfg.modes[t.mode].allow_unmatched).collect();
        let sig: Vec<usize> = r.iter().filter_map(|t| if let RKind::Term(i) = t.kind { Some(i) } else { None }).collect();
        let Ok(o) = catch(|| bound.parse(text, &RunOpts::default())) else {
            acc.outcome("panic(C19)");
            continue;
        };
        acc.eval(1);
        if !forbidden.is_empty() {
            both.0 = true;
            if o.ok {
                let um: String = forbidden.iter().map(|t| &text[t.start..t.end]).collect();
                let mode = &case.cfg.modes[forbidden[0].mode];
                let class = if um.chars().all(|c| c == '\n') && !mode.auto_nl {
                    "newline_unmatched_under_auto_newline_off_is_accepted"
                } else {
                    "unmatched_text_accepted"
                };
                out.push(vio(
                    class,
                    format!("{} | text {:?}: characters {:?} are matched by no rule of state {} (no %allow_unmatched) but the parse succeeds", case.cfg.short(), text, um, mode.name),
                    case,
                    Some(text),
                    json!({"unmatched": um}),
                ));
            }
        } else {
            both.1 = true;
            let expect = expected_accept(&case.cfg, &sig);
            if o.ok != expect {
                out.push(vio(
                    if allowed_gap.is_empty() { "verdict_wrong_without_unmatched_text" } else { "allowed_unmatched_text_changes_verdict" },
                    format!("{} | text {:?}: parse ok={} but the matched tokens {:?} alone give {}", case.cfg.short(), text, o.ok, sig, expect),
                    case,
                    Some(text),
                    json!({"ok": o.ok, "expected": expect, "err": o.err}),
                ));
            } else if o.ok && !allowed_gap.is_empty() {
                // the gap text must be in the tree
                let mut leaves = vec![];
                o.tree.as_ref().unwrap().leaves(&mut leaves);
                for g in &allowed_gap {
                    let covered = leaves.iter().any(|l| l.start <= g.start && l.end >= g.end && l.text.contains(&text[g.start..g.end]))
                        || {
                            // a gap may be split over several leaves
                            let mut p = g.start;
                            for l in leaves.iter().filter(|l| l.start >= g.start && l.end <= g.end) {
                                if l.start == p {
                                    p = l.end;
                                }
                            }
                            p == g.end
                        };
                    if !covered {
                        out.push(vio(
                            "allowed_unmatched_text_not_in_tree",
                            format!("{} | text {:?}: unmatched text {:?} at {} is not a leaf of the parse tree", case.cfg.short(), text, &text[g.start..g.end], g.start),
                            case,
                            Some(text),
                            json!({}),
                        ));
                        break;
                    }
                }
            }
        }
        if prune_by_class(&mut out, 3) > 60 {
            break;
        }
    }
    if both.0 && both.1 {
        acc.distinct(&case.cfg);
        if acc.want_sample() {
            acc.sample(json!({"config": case.cfg.short(), "texts": texts.len()}));
        }
    }
    out
}

// ---------------------------------------------------------------------------------------------
// C15
// ---------------------------------------------------------------------------------------------

fn c15_cfgs(tier: Tier) -> Vec<(ScanCfg, Vec<String>)> {
    let blocks: Vec<(&str, &str)> = vec![
        ("/*", "*/"),
        ("(*", "*)"),
        ("{", "}"),
        ("--", "--"),
        ("<!--", "-->"),
        ("[", "aa"),
        ("[", "aba"),
        ("[", "aab"),
        ("[", "abb"),
        ("/*", "**/"),
        ("[", "a"),
        ("[[", "]]"),
        ("#", "##"),
    ];
    let lines: Vec<&str> = vec!["//", "#", "--", ";"];
    let mut v = vec![];
    for raw in [true, false] {
        for (s, e) in &blocks {
            let mut m = ModeSpec::plain("INITIAL");
            m.block_comments = vec![(s.to_string(), e.to_string())];
            let mut alpha: BTreeSet<String> = s.chars().chain(e.chars()).map(|c| c.to_string()).collect();
            alpha.insert("x".into());
            if tier == Tier::Thorough {
                alpha.insert("\n".into());
            }
            v.push((ScanCfg { terms: vec![t("'x'", "x")], modes: vec![m], lalr: false, raw_comment_literals: raw, body: None }, alpha.into_iter().collect()));
        }
        for l in &lines {
            let mut m = ModeSpec::plain("INITIAL");
            m.line_comments = vec![l.to_string()];
            let mut alpha: BTreeSet<String> = l.chars().map(|c| c.to_string()).collect();
            alpha.extend(["x", "\n", "\r", " "].iter().map(|s| s.to_string()));
            v.push((ScanCfg { terms: vec![t("'x'", "x")], modes: vec![m], lalr: false, raw_comment_literals: raw, body: None }, alpha.into_iter().collect()));
        }
    }
    // several line comment styles in one state (both declaration orders)
    for raw in [true, false] {
        for pair in [["//", "#"], ["#", "//"], [";", "--"], ["--", ";"]] {
            let mut m = ModeSpec::plain("INITIAL");
            m.line_comments = pair.iter().map(|s| s.to_string()).collect();
            let mut alpha: BTreeSet<String> = pair.iter().flat_map(|l| l.chars()).map(|c| c.to_string()).collect();
            alpha.extend(["x", "\n", "\r"].iter().map(|s| s.to_string()));
            v.push((ScanCfg { terms: vec![t("'x'", "x")], modes: vec![m], lalr: false, raw_comment_literals: raw, body: None }, alpha.into_iter().collect()));
        }
    }
    // two block comment styles and a line comment together
    let mut m = ModeSpec::plain("INITIAL");
    m.block_comments = vec![("/*".into(), "*/".into()), ("(*".into(), "*)".into())];
    m.line_comments = vec!["//".into()];
    v.push((
        ScanCfg { terms: vec![t("'x'", "x")], modes: vec![m], lalr: false, raw_comment_literals: true, body: None },
        ["/", "*", "(", ")", "x", "\n"].iter().map(|s| s.to_string()).collect(),
    ));
    v
}

/// root-cause class of a comment tokenization difference: the first comment (by position) that
/// the two sides disagree on
fn classify_c15(cfg: &ScanCfg, reference: &[Norm], real: &[Norm], text: &str) -> String {
    let is_c = |n: &Norm| matches!(n.kind, RKind::BlockComment | RKind::LineComment);
    let end_of = |start: usize| -> String {
        let e = cfg.modes[0].block_comments.iter().find(|(s, _)| text[start..].starts_with(s.as_str())).map(|(_, e)| e.clone()).unwrap_or_default();
        // C-style comments have a dedicated expression; otherwise the construction depends on
        // the number of characters of the end delimiter only
        if e == "*/" { "end=*/".to_string() } else { format!("end_len={}", e.chars().count()) }
    };
    let mut events: Vec<(usize, String)> = vec![];
    for r in reference.iter().filter(|n| is_c(n)) {
        match real.iter().find(|q| q.start == r.start && q.kind == r.kind) {
            None => events.push((r.start, if r.kind == RKind::BlockComment { format!("block_comment_missed({})", end_of(r.start)) } else { "line_comment_missed".into() })),
            Some(q) if q.end > r.end => events.push((
                r.start,
                if r.kind == RKind::BlockComment {
                    // is the first end occurrence directly preceded by a non-empty proper prefix of the end
                    // delimiter (inside the comment body)? Then the known "partial end match is consumed"
                    // shape applies; an overrun past a *clean* first end is something else.
                    let (sd, ed) = cfg.modes[0].block_comments.iter().find(|(s, _)| text[r.start..].starts_with(s.as_str())).cloned().unwrap_or_default();
                    let body_start = r.start + sd.len();
                    let end_pos = r.end.saturating_sub(ed.len());
                    let body = if end_pos >= body_start { &text[body_start..end_pos] } else { "" };
                    let entangled = (1..ed.len()).any(|l| ed.is_char_boundary(l) && body.ends_with(&ed[..l]));
                    if entangled { format!("block_comment_overruns_first_end_after_partial_end({})", end_of(r.start)) } else { format!("block_comment_overruns_first_end({})", end_of(r.start)) }
                } else {
                    "line_comment_overruns_line_end".into()
                },
            )),
            Some(q) if q.end < r.end => events.push((r.start, if r.kind == RKind::BlockComment { format!("block_comment_ends_early({})", end_of(r.start)) } else { "line_comment_ends_early".into() })),
            _ => {}
        }
    }
    for q in real.iter().filter(|n| is_c(n)) {
        if !reference.iter().any(|r| r.start == q.start && r.kind == q.kind) {
            events.push((q.start, "comment_where_reference_has_none".into()));
        }
    }
    events.sort();
    events.first().map(|e| e.1.clone()).unwrap_or_else(|| "non_comment_tokens_differ".into())
}

fn eval_c15(case: &Case, acc: &Acc) -> Vec<Violation> {
    let mut out = vec![];
    let par = case.cfg.to_par();
    let (g, bound) = match catch(|| generate_and_bind(&par, 3, &GenCfg::default())) {
        Ok(Ok(x)) => x,
        Ok(Err(e)) => {
            acc.outcome(&format!("rejected:{}", e.msg.chars().take(40).collect::<String>()));
            return out;
        }
        Err(_) => {
            acc.outcome("generator_panic(C26)");
            return out;
        }
    };
    acc.outcome("accepted");
    let types = term_types(&g, &case.cfg);
    let err_tok = (bound.tnames.len() - 1) as u16;
    let rs = RefScanner::new(&case.cfg);
    let texts = match &case.text {
        Some(t) => vec![t.clone()],
        None => texts_over(&case.alphabet, case.n),
    };
    let mut n_comments = 0u64;
    for text in &texts {
        acc.eval(1);
        let reference = norm_ref(&rs.scan(text));
        let real = match catch(|| deliver(&bound, text, 1, &[])) {
            Ok(Ok(v)) => norm_real(&v, &types, err_tok),
            _ => {
                out.push(vio("token_stream_error", format!("{} | text {:?}", case.cfg.short(), text), case, Some(text), json!({})));
                continue;
            }
        };
        n_comments += reference.iter().filter(|t| matches!(t.kind, RKind::BlockComment | RKind::LineComment)).count() as u64;
        if real != reference {
            let class = classify_c15(&case.cfg, &reference, &real, text);
            out.push(vio(
                &class,
                format!("{} | text {:?}: scanner delivers [{}], first-end-delimiter rule gives [{}]", case.cfg.short(), text, fmt_norm(&real, text), fmt_norm(&reference, text)),
                case,
                Some(text),
                json!({"real": fmt_norm(&real, text), "reference": fmt_norm(&reference, text)}),
            ));
            if prune_by_class(&mut out, 3) > 60 {
                break;
            }
        }
    }
    if n_comments > 0 {
        acc.distinct(&case.cfg);
        acc.count("comment_tokens_in_reference", n_comments);
        if acc.want_sample() {
            acc.sample(json!({"config": case.cfg.short(), "texts": texts.len(), "comments": n_comments}));
        }
    }
    out
}

// ---------------------------------------------------------------------------------------------
// C17
// ---------------------------------------------------------------------------------------------

#[derive(serde::Serialize, serde::Deserialize, Clone, Debug)]
pub struct C17Case {
    pub par: String,
    pub short: String,
    /// token texts of the grammar's terminals (plus the foreign token)
    pub tokens: Vec<String>,
    /// skip items: (text, is_comment)
    pub items: Vec<(String, bool)>,
    pub n: usize,
    /// a single decorated input: (word as token indices, placements (gap, item))
    pub only: Option<(Vec<usize>, Vec<(usize, usize)>)>,
}

fn c17_vio(class: &str, what: String, case: &C17Case, w: &[usize], pl: &[(usize, usize)], detail: Value) -> Violation {
    let mut c = case.clone();
    c.only = Some((w.to_vec(), pl.to_vec()));
    Violation { class: class.into(), what, case: json!({"case": c, "par": case.par}), detail }
}

fn render(case: &C17Case, w: &[usize], pl: &[(usize, usize)]) -> String {
    let mut s = String::new();
    for gap in 0..=w.len() {
        for (g, i) in pl {
            if *g == gap {
                s.push_str(&case.items[*i].0);
            }
        }
        if gap < w.len() {
            s.push_str(&case.tokens[w[gap]]);
        }
    }
    s
}

fn action_sig(ev: &[Event]) -> Vec<(usize, Vec<String>)> {
    ev.iter()
        .filter_map(|e| match e {
            Event::Action(p, c) => Some((
                *p,
                c.iter()
                    .map(|c| match c {
                        crate::bind::Child::N(n) => format!("N:{n}"),
                        crate::bind::Child::T(t) => format!("T:{}", t.text),
                    })
                    .collect(),
            )),
            _ => None,
        })
        .collect()
}

fn placements(gaps: usize, items: usize, max: usize) -> Vec<Vec<(usize, usize)>> {
    let mut res: Vec<Vec<(usize, usize)>> = vec![vec![]];
    let singles: Vec<(usize, usize)> = (0..gaps).flat_map(|g| (0..items).map(move |i| (g, i))).collect();
    if max >= 1 {
        for s in &singles {
            res.push(vec![*s]);
        }
    }
    if max >= 2 {
        for a in &singles {
            for b in &singles {
                // ordered pairs; within one gap both orders, across gaps ascending gap
                if a.0 < b.0 || (a.0 == b.0) {
                    res.push(vec![*a, *b]);
                }
            }
        }
    }
    res
}

fn eval_c17(case: &C17Case, acc: &Acc) -> Vec<Violation> {
    let mut out = vec![];
    let Ok(Ok((_g, bound))) = catch(|| generate_and_bind(&case.par, 3, &GenCfg::default())) else {
        acc.outcome("not_accepted");
        return out;
    };
    acc.outcome("accepted");
    let is_lr = matches!(bound.tables, crate::bind::Tables::Lr { .. });
    let words: Vec<Vec<usize>> = match &case.only {
        Some((w, _)) => vec![w.clone()],
        None => {
            let mut res = vec![vec![]];
            let mut layer: Vec<Vec<usize>> = vec![vec![]];
            for _ in 0..case.n {
                let mut nx = vec![];
                for w in &layer {
                    for t in 0..case.tokens.len() {
                        let mut z = w.clone();
                        z.push(t);
                        nx.push(z);
                    }
                }
                res.extend(nx.iter().cloned());
                layer = nx;
            }
            res
        }
    };
    let mut n_ok = 0u64;
    let mut n_dec = 0u64;
    for w in &words {
        let plain = render(case, w, &[]);
        let Ok(base) = catch(|| bound.parse(&plain, &RunOpts::default())) else { continue };
        if base.budget_exceeded {
            acc.outcome("baseline_does_not_terminate(C19)");
            return out;
        }
        let base_sig = action_sig(&base.events);
        let pls = match &case.only {
            Some((_, p)) => vec![p.clone()],
            None => placements(w.len() + 1, case.items.len(), 2),
        };
        for pl in &pls {
            if pl.is_empty() {
                continue;
            }
            let text = render(case, w, pl);
            acc.eval(1);
            n_dec += 1;
            let o = match catch(|| bound.parse(&text, &RunOpts::default())) {
                Ok(o) => o,
                Err(p) => {
                    out.push(c17_vio("panic_with_skipped_tokens", format!("{} | input {:?}: {}", case.short, text, panic_site(&p)), case, w, pl, json!({})));
                    continue;
                }
            };
            if o.ok != base.ok {
                let kinds: Vec<&str> = pl.iter().map(|(_, i)| if case.items[*i].1 { "comment" } else if case.items[*i].0.starts_with('<') { "state_skip" } else { "space" }).collect();
                out.push(c17_vio(
                    &format!("skipped_tokens_change_verdict({},{})", if is_lr { "LR" } else { "LL" }, kinds.join("+")),
                    format!("{} | {:?} parses ok={} but the undecorated {:?} parses ok={}", case.short, text, o.ok, plain, base.ok),
                    case,
                    w,
                    pl,
                    json!({"decorated": text, "plain": plain, "err": o.err}),
                ));
                continue;
            }
            if o.ok {
                n_ok += 1;
                let sig = action_sig(&o.events);
                if sig != base_sig {
                    out.push(c17_vio(
                        &format!("skipped_tokens_change_derivation({})", if is_lr { "LR" } else { "LL" }),
                        format!("{} | {:?}: actions {:?} differ from those of {:?}: {:?}", case.short, text, sig, plain, base_sig),
                        case,
                        w,
                        pl,
                        json!({"decorated": text, "plain": plain}),
                    ));
                }
                // comments: exactly once, in order
                let want: Vec<String> = pl.iter().filter(|(_, i)| case.items[*i].1).map(|(_, i)| case.items[*i].0.clone()).collect();
                let got: Vec<String> = o.events.iter().filter_map(|e| if let Event::Comment(t) = e { Some(t.text.clone()) } else { None }).collect();
                if got != want {
                    let class = if got.len() < want.len() { "comment_not_delivered" } else if got.len() > want.len() { "comment_delivered_twice" } else { "comments_out_of_order" };
                    out.push(c17_vio(
                        &format!("{class}({})", if is_lr { "LR" } else { "LL" }),
                        format!("{} | {:?}: on_comment received {:?}, the input contains {:?}", case.short, text, got, want),
                        case,
                        w,
                        pl,
                        json!({"decorated": text}),
                    ));
                }
                // the same with a trimmed parse tree: comments must still arrive
                if !want.is_empty() {
                    if let Ok(ot) = catch(|| bound.parse(&text, &RunOpts { trim: true, ..Default::default() })) {
                        let got_t: Vec<String> = ot.events.iter().filter_map(|e| if let Event::Comment(t) = e { Some(t.text.clone()) } else { None }).collect();
                        if ot.ok && got_t != want {
                            out.push(c17_vio(
                                &format!("comment_not_delivered_with_trimmed_tree({})", if is_lr { "LR" } else { "LL" }),
                                format!("{} | {:?} with trim_parse_tree: on_comment received {:?}, the input contains {:?}", case.short, text, got_t, want),
                                case,
                                w,
                                pl,
                                json!({"decorated": text}),
                            ));
                        }
                    }
                }
                // every skipped token is a leaf: the leaves spell the input
                let mut leaves = vec![];
                o.tree.as_ref().unwrap().leaves(&mut leaves);
                let spelled: String = leaves.iter().map(|l| l.text.as_str()).collect();
                if spelled != text {
                    out.push(c17_vio(
                        &format!("skipped_token_missing_in_tree({})", if is_lr { "LR" } else { "LL" }),
                        format!("{} | {:?}: the tree leaves spell {:?}", case.short, text, spelled),
                        case,
                        w,
                        pl,
                        json!({"decorated": text, "leaves": spelled}),
                    ));
                }
            }
            if out.len() > 6 {
                return out;
            }
        }
    }
    if n_ok > 0 {
        acc.distinct(&case.par);
        acc.count("decorated_inputs", n_dec);
        acc.count("decorated_inputs_accepted", n_ok);
        if acc.want_sample() {
            acc.sample(json!({"grammar": case.short, "decorated_inputs": n_dec, "accepted": n_ok}));
        }
    }
    out
}

fn c17_cases(tier: Tier) -> Vec<C17Case> {
    let hdr = "%line_comment '#'\n%block_comment '(' ')'\n";
    let items: Vec<(String, bool)> = vec![(" ".into(), false), ("\n".into(), false), ("#c\n".into(), true), ("(c)".into(), true), ("\t".into(), false), ("()".into(), true)];
    let mut v = vec![];
    let templates: Vec<(&str, Vec<&str>)> = vec![
        ("S: 'a' { 'b' } [ 'c' ];", vec!["a", "b", "c", "x"]),
        ("S: A { ',' A }; A: 'a' | 'b';", vec!["a", "b", ",", "x"]),
        ("S: 'a' S 'b' | 'c';", vec!["a", "b", "c", "x"]),
        ("S: [ 'a' ] [ 'a' 'b' ];", vec!["a", "b", "x"]),
        ("S: { 'a' 'b' } 'a';", vec!["a", "b", "x"]),
    ];
    for lalr in [false, true] {
        for (body, toks) in &templates {
            let gt = if lalr { "%grammar_type 'LALR(1)'\n" } else { "" };
            v.push(C17Case {
                par: format!("%start S\n{gt}{hdr}%%\n{body}\n"),
                short: format!("{}{body}", if lalr { "[LALR] " } else { "" }),
                tokens: toks.iter().map(|s| s.to_string()).collect(),
                items: items.clone(),
                n: tier.pick(3, 4),
                only: None,
            });
        }
        if lalr {
            v.push(C17Case {
                par: format!("%start S\n%grammar_type 'LALR(1)'\n{hdr}%%\nS: S 'a' | 'b';\n"),
                short: "[LALR] S: S 'a' | 'b';".into(),
                tokens: vec!["a".into(), "b".into(), "x".into()],
                items: items.clone(),
                n: tier.pick(3, 4),
                only: None,
            });
        }
        // scanner-state skip lists: `<...>` is skipped by %skip in two states
        let gt = if lalr { "%grammar_type 'LALR(1)'\n" } else { "" };
        let mut items2 = items.clone();
        items2.push(("<x y>".into(), false));
        items2.push(("<>".into(), false));
        for body in ["S: 'a' { 'b' };", "S: A { A }; A: 'a' | 'b' 'a';"] {
            v.push(C17Case {
                par: format!("%start S\n{gt}{hdr}%skip CStart\n%on CStart %push Cmt\n%scanner Cmt {{\n  %auto_newline_off\n  %auto_ws_off\n  %skip CText, CEnd\n  %on CEnd %pop\n}}\n%%\n{body}\nCStart: '<';\nCEnd: <Cmt>'>';\nCText: <Cmt>/[^>]+/;\n"),
                short: format!("{}[%skip template] {body}", if lalr { "[LALR] " } else { "" }),
                tokens: vec!["a".into(), "b".into(), "x".into()],
                items: items2.clone(),
                n: tier.pick(3, 4),
                only: None,
            });
        }
    }
    // enumerated grammars with the comment header
    let mut grams = crate::props::ll::ll_grammars(Tier::Quick);
    grams.extend(crate::props::lr::lr_grammars(Tier::Quick));
    grams.retain(|g| !g.is_bnf() || (if g.lalr { crate::gram::Bnf::of(g).well_formed_lr() } else { crate::gram::Bnf::of(g).well_formed_ll() }));
    let step = tier.pick(40, 8);
    for (i, g) in grams.iter().enumerate() {
        if i % step != 0 {
            continue;
        }
        let mut g2 = g.clone();
        g2.header = vec!["%line_comment '#'".into(), "%block_comment '(' ')'".into()];
        let mut toks = g.term_text.clone();
        toks.push("x".into());
        v.push(C17Case { par: g2.to_par(), short: g2.short(), tokens: toks, items: items.clone(), n: 3, only: None });
    }
    v
}

// ---------------------------------------------------------------------------------------------
// entry
// ---------------------------------------------------------------------------------------------

pub fn run(id: &str, tier: Tier, replay: Option<&str>) -> i32 {
    if id == "C17" {
        return run_c17(tier, replay);
    }
    if let Some(p) = replay {
        let v = read_replay(p);
        let case: Case = serde_json::from_value(v["case"].clone()).expect("bad replay case");
        return replay_verdict(id, p, || match id {
            "C13" => eval_c13(&case, tier, &Acc::default()),
            "C14" => eval_c14(&case, &Acc::default()),
            "C15" => eval_c15(&case, &Acc::default()),
            "C16" => eval_c16(&case, &Acc::default()),
            _ => vec![],
        });
    }
    let ctx = Ctx::new(id, tier);
    let acc = Acc::default();
    let alphabet: Vec<String> = ["a", "b", " ", "\n", "x"].iter().map(|s| s.to_string()).collect();
    let (cases, rule, level, extra): (Vec<Case>, String, &'static str, Value) = match id {
        "C13" => {
            let n = tier.pick(5, 6);
            let mut cfgs = single_state_cfgs(tier.pick(2, 3), false);
            cfgs.extend(multi_state_cfgs(false));
            cfgs.extend(multi_state_cfgs(true));
            if tier == Tier::Thorough {
                cfgs.extend(single_state_cfgs(2, true));
            }
            let cases = cfgs.into_iter().map(|c| Case { cfg: c, alphabet: alphabet.clone(), n, text: None, reuse_first: None }).collect();
            (
                cases,
                format!("scanner configurations: every ordered selection of 1..={} distinct terminals from a menu of 15 colliding patterns (raw/string/regex literals with equal texts, +, *, alternation, classes, positive and negative lookahead) plus two/three-state configurations for every combination of enter/push/pop (pop on an empty stack included) and three-state configurations in which one terminal occurs twice with different state lists (every ordered pair of distinct non-empty state lists), LL and LALR; x every text of length <= {n} over {{a, b, blank, newline, x}}; the tokens handed out by the real TokenStream (k=1) must equal the reference tokenizer (longest match, first declared on ties, lookahead honoured, state switches); the same tokens for k=2,3 and for every consumption schedule (per consume step one of: no lookahead, LA(0), LA(k-1), all ascending, all descending; first {} steps). Non-trivial = configurations on which >= 3 token kinds occur.", tier.pick(2, 3), tier.pick(3, 4)),
                "model_checking",
                json!({}),
            )
        }
        "C14" => {
            let n = tier.pick(4, 5);
            let alpha: Vec<String> = ["a", "b", " ", "\r", "\n", "é", "😀", "x"].iter().map(|s| s.to_string()).collect();
            let cases = c14_cfgs(tier).into_iter().map(|c| Case { cfg: c, alphabet: alpha.clone(), n, text: None, reuse_first: None }).collect();
            (
                cases,
                format!("scanner configurations of the C13 menu (LL and LALR), each plain / with %allow_unmatched / with line and block comments / with %auto_newline_off / with %auto_ws_off; x every text of length <= {n} over {{a, b, blank, CR, LF, e-acute (2 bytes), an emoji (4 bytes), x}}; all tokens handed out (significant, skipped, comments, unmatched gaps) must be contiguous from 0 to the end of the input, carry exactly input[start..end], and report line/column = (1 + number of LF before, 1 + characters since the last LF) at both ends; for every successful parse the tree leaves must be exactly these tokens in order. Non-trivial = configurations with at least one successful parse compared."),
                "exploration",
                json!({}),
            )
        }
        "C15" => {
            let n = tier.pick(7, 9);
            let cases = c15_cfgs(tier).into_iter().map(|(c, a)| Case { cfg: c, alphabet: a, n, text: None, reuse_first: None }).collect();
            (
                cases,
                format!("13 block-comment delimiter pairs covering every border structure of 1-3 character end delimiters (*/ *) }} -- --> aa aba aab abb **/ a ]] ##) and 4 line-comment markers, each written as raw and as escaped string literal, pairs of line-comment styles in both declaration orders, plus a mixed configuration; x every text of length <= {n} over the delimiter characters plus x (and line breaks for line comments); the delivered tokens must equal the reference in which a block comment runs from its start delimiter to the first following end delimiter and a line comment to the end of its line including the line break (lone CR reported as its own class). Non-trivial = configurations with at least one comment in the reference."),
                "exploration",
                json!({}),
            )
        }
        "C16" => {
            let n = tier.pick(5, 6);
            let alpha: Vec<String> = ["a", "b", " ", "\t", "\n", "\r", "?", "é"].iter().map(|s| s.to_string()).collect();
            let cases = c16_cfgs().into_iter().map(|c| Case { cfg: c, alphabet: alpha.clone(), n, text: None, reuse_first: None }).collect();
            (
                cases,
                format!("all combinations of auto-newline on/off x auto-whitespace on/off x allow-unmatched on/off x three grammar bodies (any token sequence / exactly T0 T1 / T0 {{T1}}) x LL/LALR, plus two-state configurations with different allow-unmatched settings per state; x every text of length <= {n} over {{a, b, blank, tab, LF, CR, ?, e-acute}}; oracle: the reference tokenizer finds text no rule of a state without allow-unmatched matches => the parse must fail; otherwise the verdict must be the verdict of the matched tokens alone and allowed unmatched text must be a leaf of the tree. Non-trivial = configurations where both situations occur."),
                "exploration",
                json!({}),
            )
        }
        _ => unreachable!(),
    };
    acc.count("configurations", cases.len() as u64);
    cases.par_iter().for_each(|c| {
        if ctx.expired() {
            acc.count("cases_skipped_by_cap", 1);
            return;
        }
        let vs = match id {
            "C13" => eval_c13(c, tier, &acc),
            "C14" => eval_c14(c, &acc),
            "C15" => eval_c15(c, &acc),
            "C16" => eval_c16(c, &acc),
            _ => vec![],
        };
        for v in vs {
            acc.violation(v);
        }
    });
    let mut extra = extra;
    if level == "model_checking" {
        let e = acc.evaluations.load(std::sync::atomic::Ordering::Relaxed).max(1);
        let s = acc.counters.lock().unwrap().get("schedules").copied().unwrap_or(0);
        extra = json!({"states": e, "transitions": e, "traces_validated_against_impl": e, "schedules_explored": s,
            "explanation": "each evaluation is one complete execution of the real TokenStream under one (lookahead size, operation schedule); states = executions"});
    }
    finish(
        &ctx,
        &acc,
        Finish {
            level,
            rule,
            exhaustive_note: "all configurations of the stated menu and all texts up to the stated length unless capped=true".into(),
            assumptions: vec!["terminal patterns of the reference are matched with the regex crate (independent of scnr2)".into()],
            extra,
        },
    )
}

#[allow(dead_code)]
fn unused(_: &Node, _: &Event, _: &RunOpts) {}

fn run_c17(tier: Tier, replay: Option<&str>) -> i32 {
    if let Some(p) = replay {
        let v = read_replay(p);
        let case: C17Case = serde_json::from_value(v["case"].clone()).expect("bad replay case");
        return replay_verdict("C17", p, || eval_c17(&case, &Acc::default()));
    }
    let ctx = Ctx::new("C17", tier);
    let acc = Acc::default();
    let cases = c17_cases(tier);
    acc.count("grammars", cases.len() as u64);
    cases.par_iter().for_each(|c| {
        if ctx.expired() {
            acc.count("cases_skipped_by_cap", 1);
            return;
        }
        for v in eval_c17(c, &acc) {
            acc.violation(v);
        }
    });
    finish(
        &ctx,
        &acc,
        Finish {
            level: "exploration",
            rule: format!("grammars: 5 EBNF templates and a left-recursive one (LL and LALR), two %skip/%push/%pop templates whose `<...>` tokens are skipped by scanner-state skip lists, and every {}th accepted grammar of the C01/C03 quick spaces, all with `%line_comment '#'` and `%block_comment '(' ')'`; words: every token string of length <= n (3..4) over the terminals plus a foreign token; decorations: every placement of <= 2 skip items from {{blank, LF, tab, `#c LF`, `(c)`, `()`, `<x y>`, `<>`}} into the gaps (both orders within one gap); oracle: verdict and action trace equal those of the undecorated word; on accepted inputs on_comment receives exactly the comments of the input in order; the tree leaves spell the input. Non-trivial = grammars with at least one accepted decorated input.", tier.pick(40, 8)),
            exhaustive_note: "all listed grammars, words and placements unless capped=true".into(),
            assumptions: vec!["generated tables evaluated from the generated source text (see C21/C22)".into()],
            extra: json!({}),
        },
    )
}
