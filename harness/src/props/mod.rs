use crate::common::Tier;

pub mod ll;

pub fn run(id: &str, tier: Tier, replay: Option<&str>) -> i32 {
    match id {
        "C01" | "C02" => ll::run(id, tier, replay),
        "spaces" => {
            ll::print_spaces();
            0
        }
        _ => {
            eprintln!("unknown property {id}");
            2
        }
    }
}
