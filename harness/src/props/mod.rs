use crate::common::Tier;

pub mod analysis;
pub mod artifacts;
pub mod determ;
pub mod farm;
pub mod dbg;
pub mod ll;
pub mod lr;
pub mod lsprops;
pub mod lssched;
pub mod nopanic;
pub mod robust;
pub mod scanner;
pub mod small;
pub mod transform;

pub fn run(id: &str, tier: Tier, replay: Option<&str>) -> i32 {
    match id {
        "C01" | "C02" => ll::run(id, tier, replay),
        "C09" | "C10" | "C11" | "C12" => transform::run(id, tier, replay),
        "C03" | "C04" => lr::run(id, tier, replay),
        "C19" | "C20" => robust::run(id, tier, replay),
        "C13" | "C14" | "C15" | "C16" | "C17" => scanner::run(id, tier, replay),
        "C31" | "C32" => small::run(id, tier, replay),
        "C18" | "C21" | "C25" | "C33" => artifacts::run(id, tier, replay),
        "C26" => nopanic::run(tier, replay),
        "C19-deep" => robust::deep_worker(&std::env::args().skip(2).collect::<Vec<_>>()),
        "C26-deep" => nopanic::deep_worker(&std::env::args().skip(2).collect::<Vec<_>>()),
        "C27" | "C28" | "C30" | "C34" => lsprops::run(id, tier, replay),
        "C29" => lssched::run(tier, replay),
        "C24" => determ::run(tier, replay),
        "C22" | "C23" => farm::run(id, tier, replay),
        "C05" | "C06" | "C07" | "C08" => analysis::run(id, tier, replay),
        "dbg" => dbg::run(&std::env::args().skip(2).collect::<Vec<_>>()),
        "count" => {
            let a: Vec<usize> = std::env::args().skip(2).map(|x| x.parse().unwrap()).collect();
            let t0 = std::time::Instant::now();
            let b = crate::gram::enum_bnf_pre(&crate::gram::BnfSpace { max_nt: a[0], max_t: a[1], max_len: a[2], max_alts: a[3], max_size: a[4] }, false, crate::gram::Pre::WellFormedLl);
            let wf = b.len();
            crate::outln!("{:?}: {} canonical, {} well-formed LL, {:?}", a, b.len(), wf, t0.elapsed());
            0
        }
        "spaces" => {
            ll::print_spaces();
            0
        }
        _ => {
            eprintln!("unknown property {id}");
            2
        }
    }
}
