//! C24: code generation is deterministic.
//! (N) every HashMap iteration order inside utils::group_by and left_factoring::find_prefix is
//! a choice point of hook H2; depth-first search over the choice sequences with a deviation
//! bound.  Seam conformance: the un-hooked command line tool is run in separate processes (each
//! with its own random hash seed) and must reproduce the baseline output.

use rayon::prelude::*;
use serde_json::json;

use crate::bind::{GenCfg, pipeline};
use crate::common::*;
use crate::gram::*;

#[derive(serde::Serialize, serde::Deserialize, Clone, Debug)]
struct Case {
    par: String,
    choices: Option<Vec<usize>>,
}

/// (expanded grammar, parser source) under a given choice sequence; plus the trace
fn generate(par: &str, preset: Vec<usize>) -> Result<(Option<(String, String)>, Vec<(usize, usize)>), String> {
    parol::verif_hooks::reset(preset);
    let r = catch(|| pipeline(par, 3, &GenCfg::default()));
    let trace = parol::verif_hooks::take_trace();
    parol::verif_hooks::reset(vec![]);
    match r {
        Err(p) => Err(p),
        Ok(Err(_)) => Ok((None, trace)),
        Ok(Ok(g)) => {
            let exp = parol::render_par_string(&g.gc, true).unwrap_or_default();
            Ok((Some((exp, g.parser_src)), trace))
        }
    }
}

fn eval(case: &Case, bound: usize, acc: &Acc) -> Vec<Violation> {
    let mut out = vec![];
    let short = case.par.replace('\n', " ");
    let mkv = |class: &str, what: String, ch: &[usize]| Violation { class: class.into(), what, case: json!({"det": Case { par: case.par.clone(), choices: Some(ch.to_vec()) }}), detail: json!({}) };
    let base = match generate(&case.par, vec![]) {
        Ok((Some(b), t)) => (b, t),
        Ok((None, _)) => {
            acc.outcome("not_accepted");
            return out;
        }
        Err(_) => {
            acc.outcome("panic (C26)");
            return out;
        }
    };
    let (base_out, base_trace) = base;
    acc.outcome(&format!("choice_points={}", base_trace.iter().filter(|t| t.1 > 1).count().min(20)));
    if base_trace.iter().any(|t| t.1 > 1) {
        acc.distinct(&case.par);
    }
    // DFS over choice sequences (the idiom of the guidance: replay a prefix, default afterwards)
    let mut stack: Vec<Vec<usize>> = match &case.choices {
        Some(c) => vec![c.clone()],
        None => vec![vec![]],
    };
    let mut states = 0u64;
    while let Some(prefix) = stack.pop() {
        states += 1;
        acc.eval(1);
        let (o, trace) = match generate(&case.par, prefix.clone()) {
            Ok(x) => x,
            Err(p) => {
                out.push(mkv("panic_under_some_iteration_order", format!("{short}: choices {prefix:?}: {}", panic_site(&p)), &prefix));
                continue;
            }
        };
        match o {
            None => out.push(mkv("acceptance_depends_on_iteration_order", format!("{short}: rejected under choices {prefix:?}, accepted under the default order"), &prefix)),
            Some(o) => {
                if o != base_out {
                    let which = if o.0 != base_out.0 { "expanded_grammar" } else { "parser_source" };
                    // where does the first differing choice happen?
                    let what = first_diff(&base_out.0, &o.0).or_else(|| first_diff(&base_out.1, &o.1)).unwrap_or_default();
                    out.push(mkv(
                        &format!("{which}_depends_on_hash_map_iteration_order"),
                        format!("{short}: choices {prefix:?} (iteration order of a map in group_by/find_prefix) change the generated {which}: {what}"),
                        &prefix,
                    ));
                    if out.len() >= 2 {
                        break;
                    }
                }
            }
        }
        if case.choices.is_some() {
            break;
        }
        // extend: deviate at every later choice point
        let dev = prefix.iter().filter(|c| **c != 0).count();
        if dev >= bound {
            continue;
        }
        for i in prefix.len()..trace.len() {
            for alt in 1..trace[i].1 {
                let mut p2: Vec<usize> = trace[..i].iter().map(|t| t.0).collect();
                p2.push(alt);
                stack.push(p2);
            }
        }
        if states > 20000 {
            acc.count("grammars_capped_at_20000_orders", 1);
            break;
        }
    }
    acc.count("states", states);
    acc.fallback(|| json!({"grammar": short, "orders_explored": states}));
    if acc.want_sample() && base_trace.iter().filter(|t| t.1 > 1).count() >= 3 {
        acc.sample(json!({"grammar": short, "choice_points": base_trace.iter().filter(|t| t.1 > 1).count(), "orders_explored": states}));
    }
    out
}

fn first_diff(a: &str, b: &str) -> Option<String> {
    for (x, y) in a.lines().zip(b.lines()) {
        if x != y {
            return Some(format!("{:?} vs {:?}", x.trim(), y.trim()));
        }
    }
    None
}

fn grammars(tier: Tier) -> Vec<String> {
    let mut v: Vec<String> = vec![];
    // prefix groups of equal size (find_prefix ties), several non-terminals to factor
    let pg = crate::props::transform::prefix_group_grammars_pub(Tier::Quick);
    v.extend(pg.iter().step_by(tier.pick(23, 3)).map(|g| g.to_par()));
    let ll = crate::props::ll::ll_grammars(Tier::Quick);
    v.extend(ll.iter().filter(|g| !g.is_bnf() || Bnf::of(g).well_formed_ll()).step_by(tier.pick(37, 5)).map(|g| g.to_par()));
    let lr = crate::props::lr::lr_grammars(Tier::Quick);
    v.extend(lr.iter().step_by(tier.pick(97, 11)).map(|g| g.to_par()));
    for c in crate::props::scanner::multi_state_cfgs_pub(false).into_iter().step_by(tier.pick(5, 1)) {
        v.push(c.to_par());
    }
    v.push("%start S\n%%\nS: 'a' 'b' | 'a' 'c' | 'd' 'e' | 'd' 'f' | 'g' 'h' | 'g' 'i';\n".into());
    v.push("%start S\n%%\nS: A B;\nA: 'a' 'b' | 'a' 'c' | 'x' 'y' | 'x' 'z';\nB: 'a' 'b' | 'a' 'c' | 'x' 'y' | 'x' 'z';\n".into());
    v.push("%start S\n%on A, B %enter X\n%on C %push Y\n%scanner X { %on A %enter INITIAL %on B %enter Y }\n%scanner Y { %on C %pop %on A %enter X }\n%%\nS: { A | B | C };\nA: <INITIAL, X, Y>'a';\nB: <INITIAL, X>'b';\nC: <INITIAL, Y>'c';\n".into());
    v
}

/// output of the un-hooked command line tool in a fresh process
fn cli_outputs(par: &str, n: usize) -> Result<Vec<String>, String> {
    let cli = verif_root().join(".build").join("cli").join("debug").join("parol");
    if !cli.exists() {
        return Err(format!("{} missing (tools/build_cli.sh)", cli.display()));
    }
    let dir = verif_root().join(".build").join("tmp").join(format!("c24-{}-{}", std::process::id(), hash_of(&par)));
    std::fs::create_dir_all(&dir).map_err(|e| e.to_string())?;
    std::fs::write(dir.join("g.par"), par).map_err(|e| e.to_string())?;
    let mut res = vec![];
    for i in 0..n {
        let fake = verif_root().join("tools").join("fakebin");
        let st = std::process::Command::new(&cli)
            .current_dir(&dir)
            .env("PATH", format!("{}:{}", fake.display(), std::env::var("PATH").unwrap_or_default()))
            .args(["-f", "g.par", "-p", "parser.rs", "-a", "trait.rs", "-e", "exp.par", "-t", "Gram", "-m", "gram", "-k", "3", "-q"])
            .stdout(std::process::Stdio::null())
            .stderr(std::process::Stdio::null())
            .status()
            .map_err(|e| e.to_string())?;
        let _ = i;
        if !st.success() {
            let _ = std::fs::remove_dir_all(&dir);
            return Ok(vec![]);
        }
        let mut s = String::new();
        for f in ["parser.rs", "trait.rs", "exp.par"] {
            s.push_str(&std::fs::read_to_string(dir.join(f)).unwrap_or_default());
            s.push_str("\n=====\n");
        }
        res.push(s);
    }
    let _ = std::fs::remove_dir_all(&dir);
    Ok(res)
}

pub fn run(tier: Tier, replay: Option<&str>) -> i32 {
    if let Some(p) = replay {
        let v = read_replay(p);
        let case: Case = serde_json::from_value(v["det"].clone()).expect("bad replay");
        return replay_verdict("C24", p, || eval(&case, 8, &Acc::default()));
    }
    let ctx = Ctx::new("C24", tier);
    let acc = Acc::default();
    let gs = grammars(tier);
    let bound = tier.pick(1, 2);
    acc.count("grammars", gs.len() as u64);
    gs.par_iter().for_each(|par| {
        if ctx.expired() {
            acc.count("grammars_skipped_by_cap", 1);
            return;
        }
        for v in eval(&Case { par: par.clone(), choices: None }, bound, &acc) {
            acc.violation(v);
        }
    });
    // seam conformance with real hash seeds: separate processes of the un-hooked CLI
    let n_proc = tier.pick(4, 8);
    let sample: Vec<&String> = gs.iter().step_by(tier.pick(9, 3)).collect();
    sample.par_iter().for_each(|par| {
        if ctx.expired() {
            return;
        }
        match cli_outputs(par, n_proc) {
            Err(e) => {
                acc.count("cli_runs_failed_machinery", 1);
                let _ = e;
            }
            Ok(o) if o.is_empty() => acc.count("cli_rejected", 1),
            Ok(o) => {
                acc.count("cli_process_runs", o.len() as u64);
                if o.iter().any(|x| *x != o[0]) {
                    let d = o.iter().find(|x| **x != o[0]).and_then(|x| first_diff(&o[0], x)).unwrap_or_default();
                    acc.violation(Violation {
                        class: "output_differs_between_processes".into(),
                        what: format!("{}: {} runs of the command line tool in separate processes do not all produce the same files: {d}", par.replace('\n', " "), o.len()),
                        case: json!({"det": Case { par: (*par).clone(), choices: None }, "processes": true}),
                        detail: json!({}),
                    });
                } else {
                    acc.count("cli_grammars_identical_across_processes", 1);
                }
            }
        }
    });
    let c = acc.counters.lock().unwrap().clone();
    let st = c.get("states").copied().unwrap_or(1).max(1);
    finish(
        &ctx,
        &acc,
        Finish {
            level: "model_checking",
            rule: format!("grammars with tie situations: the prefix-group family (2-3 groups of alternatives sharing a first terminal, equal group sizes), several non-terminals to factor, slices of the enumerated LL/LALR/EBNF spaces, multi-state scanner configurations with several transitions; for each grammar a depth-first search over the iteration orders of every map in utils::group_by and left_factoring::find_prefix (hook H2: each iteration is a permutation chosen element by element), all choice sequences with at most {bound} deviations from insertion order; oracle: expanded grammar text and parser source byte-identical to the default order. Seam conformance: the un-hooked command line tool is run {n_proc} times in separate processes (fresh hash seeds) on every {}th grammar; all runs must produce identical parser, trait and expanded-grammar files (this part samples hash seeds and is evidence for the seam, not the verdict).", tier.pick(9, 3)),
            exhaustive_note: "all choice sequences within the deviation bound (at most 20000 orders per grammar, counted if hit)".into(),
            assumptions: vec!["std::collections::HashMap may iterate in any order; OrderMap (hook H2) produces exactly the permutations of the inserted keys".into()],
            extra: json!({"states": st, "transitions": st, "traces_validated_against_impl": c.get("cli_process_runs").copied().unwrap_or(0),
                "explanation": "states = executions of the real pipeline under one iteration-order choice sequence; traces_validated = runs of the un-hooked CLI in separate processes that reproduced the explored baseline"}),
        },
    )
}
