//! C19 (generated parsers never crash and always terminate) and C20 (parser options do not
//! change outcomes).

use rayon::prelude::*;
use serde_json::{Value, json};
use std::sync::Mutex;
use std::time::Instant;

use crate::bind::{Bound, Event, GenCfg, Rec, RunOpts, generate_and_bind};
use crate::common::*;
use crate::gram::*;

#[derive(serde::Serialize, serde::Deserialize, Clone, Debug)]
pub struct Case {
    pub par: String,
    pub short: String,
    pub k: usize,
    /// input texts; None = the enumerated family
    pub inputs: Option<Vec<String>>,
    pub alphabet: Vec<String>,
    pub n: usize,
    #[serde(default)]
    pub gen_trim: bool,
    #[serde(default)]
    pub gen_no_recovery: bool,
    #[serde(default)]
    pub gen_depth: Option<usize>,
}

fn vio(class: &str, what: String, case: &Case, input: Option<&str>, detail: Value) -> Violation {
    let mut c = case.clone();
    if let Some(i) = input {
        c.inputs = Some(vec![i.to_string()]);
    }
    Violation { class: class.into(), what, case: json!({"case": c}), detail }
}

fn special_grammars() -> Vec<(String, String, Vec<String>)> {
    // (short, par, alphabet) -- terminals that can match the empty string, overlapping regexes,
    // scanner states, comments
    let mk = |body: &str, header: &str, alpha: &[&str]| {
        (
            format!("{header} {body}").replace('\n', " ").trim().to_string(),
            format!("%start S\n{header}\n%%\n{body}\n"),
            alpha.iter().map(|s| s.to_string()).collect::<Vec<_>>(),
        )
    };
    vec![
        mk("S: /a*/ 'b';", "", &["a", "b", "x", " "]),
        mk("S: { /a*/ } 'b';", "", &["a", "b", "x"]),
        mk("S: /a*b*/ S | ;", "", &["a", "b", "x"]),
        mk("S: /(a|b)*/;", "", &["a", "b", "x", " "]),
        mk("S: /a?/ /b?/;", "", &["a", "b", "x"]),
        mk("S: 'a' { 'b' } ;", "%line_comment '#'\n%block_comment '(' ')'", &["a", "b", "#", "(", ")", "\n"]),
        mk("S: 'a' [ S ] 'b';", "", &["a", "b", "x", "é"]),
        mk("S: A { ',' A }; A: 'a' | 'b' A;", "", &["a", "b", ",", "x"]),
        mk("S: { A }; A: 'a' B; B: 'b' | ;", "%grammar_type 'LALR(1)'", &["a", "b", "x", "é"]),
        mk("S: S 'a' | 'b';", "%grammar_type 'LALR(1)'", &["a", "b", "x"]),
        mk("S: /a*/ S | 'b';", "%grammar_type 'LALR(1)'", &["a", "b", "x"]),
        // tokens skipped by a scanner state's %skip list (only on the tree stack when the tree is not trimmed)
        mk("S: A B; A: 'a'; B: 'b'; H: '#';", "%skip H", &["a", "b", "#", "x"]),
        mk("S: A B; A: 'a'; B: 'b'; H: '#';", "%grammar_type 'LALR(1)'\n%skip H", &["a", "b", "#", "x"]),
        mk("S: 'a' { 'b' }; CStart: '<'; CEnd: <Cmt>'>'; CText: <Cmt>/[^>]+/;", "%skip CStart\n%on CStart %push Cmt\n%scanner Cmt {\n  %auto_newline_off\n  %auto_ws_off\n  %skip CText, CEnd\n  %on CEnd %pop\n}", &["a", "b", "<", ">", "x"]),
        mk("S: 'a' { 'b' }; CStart: '<'; CEnd: <Cmt>'>'; CText: <Cmt>/[^>]+/;", "%grammar_type 'LALR(1)'\n%skip CStart\n%on CStart %push Cmt\n%scanner Cmt {\n  %auto_newline_off\n  %auto_ws_off\n  %skip CText, CEnd\n  %on CEnd %pop\n}", &["a", "b", "<", ">", "x"]),
    ]
}

fn texts_over(alpha: &[String], n: usize) -> Vec<String> {
    let mut res = vec![String::new()];
    let mut layer = vec![String::new()];
    for _ in 0..n {
        let mut nx = vec![];
        for w in &layer {
            for a in alpha {
                nx.push(format!("{w}{a}"));
            }
        }
        res.extend(nx.iter().cloned());
        layer = nx;
    }
    res
}

/// inputs of one case: all texts <= n over the alphabet, plus long error families
fn inputs_of(case: &Case, sentences: &[String]) -> Vec<String> {
    if let Some(i) = &case.inputs {
        return i.clone();
    }
    let mut v = texts_over(&case.alphabet, case.n);
    for s in sentences.iter().take(4) {
        for m in [1usize, 2, 50, 101, 150] {
            v.push(format!("{s}{}", "x".repeat(m)));
            v.push(format!("{}{s}", "x ".repeat(m)));
            v.push(format!("{s}{}", " x".repeat(m)));
        }
    }
    v
}

// current case per worker for the hang monitor
static CURRENT: Mutex<Vec<Option<(Instant, String, String)>>> = Mutex::new(Vec::new());

fn set_current(slot: usize, v: Option<(Instant, String, String)>) {
    let mut c = CURRENT.lock().unwrap();
    if c.len() <= slot {
        c.resize(slot + 1, None);
    }
    c[slot] = v;
}

fn eval_c19(case: &Case, acc: &Acc) -> Vec<Violation> {
    let mut out = vec![];
    let cfg = GenCfg::default();
    let Ok(Ok((g_, bound))) = catch(|| generate_and_bind(&case.par, case.k, &cfg)) else {
        acc.outcome("not_accepted");
        return out;
    };
    acc.outcome("accepted");
    let resolved_conflicts = match &g_.analysis {
        crate::bind::Analysis::Lr(_, n) => *n,
        _ => 0,
    };
    // a few sentences to build the long error families from
    let mut sentences = vec![];
    if case.inputs.is_none() {
        for t in texts_over(&case.alphabet, 3) {
            if let Ok(o) = catch(|| bound.parse(&t, &RunOpts::default())) {
                if o.ok {
                    sentences.push(t);
                }
            }
            if sentences.len() >= 4 {
                break;
            }
        }
    }
    let slot = rayon::current_thread_index().unwrap_or(0);
    let mut classes = std::collections::BTreeSet::new();
    'inputs: for text in inputs_of(case, &sentences) {
        for rec_dis in [false, true] {
            if rec_dis && matches!(bound.tables, crate::bind::Tables::Lr { .. }) {
                continue;
            }
            set_current(slot, Some((Instant::now(), serde_json::to_string(case).unwrap(), text.clone())));
            let mut rec = Rec { max_actions: 50_000, ..Default::default() };
            let r = catch(|| bound.parse_with(&text, &RunOpts { recovery_disabled: rec_dis, ..Default::default() }, &mut rec));
            set_current(slot, None);
            acc.eval(1);
            match r {
                Err(p) => {
                    let site = p.split(" @ ").last().unwrap_or("").to_string();
                    let class = format!("panic@{}", site.rsplit('/').next().unwrap_or(&site));
                    if classes.insert(class.clone()) {
                        out.push(vio(&class, format!("{} | input {:?} recovery_disabled={rec_dis}: panic: {}", case.short, trunc(&text), panic_site(&p)), case, Some(&text), json!({"panic": p})));
                    }
                    acc.outcome("panic");
                }
                Ok(o) => {
                    if o.budget_exceeded {
                        if classes.insert("reduce_loop".into()) {
                            let class = if resolved_conflicts > 0 { "lr_parser_loops_on_table_with_resolved_conflicts" } else { "parser_does_not_terminate" };
                            out.push(vio(class, format!("{} | input {:?}: more than 50000 action calls (resolved conflicts: {resolved_conflicts}, grammar cyclic: {})", case.short, trunc(&text), is_cyclic_par(&case.par)), case, Some(&text), json!({"resolved_conflicts": resolved_conflicts})));
                        }
                        acc.outcome("budget_exceeded");
                        break 'inputs;
                    }
                    if let Some(n) = o.n_errors {
                        if n > 101 {
                            out.push(vio("too_many_errors_reported", format!("{} | input {:?}: {n} errors", case.short, trunc(&text)), case, Some(&text), json!({})));
                        }
                        acc.outcome(&format!("err entries={}", if n > 100 { ">100".to_string() } else if n > 1 { "2..100".into() } else { n.to_string() }));
                    } else if o.ok {
                        acc.outcome("ok");
                    } else {
                        acc.outcome(&format!("err {}", o.err.clone().unwrap_or_default()));
                    }
                }
            }
        }
    }
    acc.distinct(&case.par);
    if acc.want_sample() {
        acc.sample(json!({"grammar": case.short, "K": case.k, "sentences_used_for_error_families": sentences}));
    }
    out
}

pub fn is_cyclic_par_pub(par: &str) -> bool {
    is_cyclic_par(par)
}

/// Does some non-terminal of the canonicalized grammar derive itself (A =>+ A)?
fn is_cyclic_par(par: &str) -> bool {
    let Ok(Ok(gc)) = catch(|| parol::obtain_grammar_config_from_string(par, false)) else { return false };
    let nts: Vec<String> = gc.cfg.get_non_terminal_set().into_iter().collect();
    let idx = |n: &str| nts.iter().position(|x| x == n).unwrap() as u8;
    let prods: Vec<(u8, Vec<Fac>)> = gc
        .cfg
        .pr
        .iter()
        .map(|p| {
            (
                idx(p.get_n_str()),
                p.get_r()
                    .iter()
                    .map(|s| match s {
                        parol::Symbol::N(n, ..) => Fac::N(idx(n)),
                        _ => Fac::T(0),
                    })
                    .collect(),
            )
        })
        .collect();
    Bnf { nnt: nts.len(), nt: 1, prods }.cyclic()
}

fn trunc(s: &str) -> String {
    if s.chars().count() > 40 { format!("{}...({} chars)", s.chars().take(40).collect::<String>(), s.chars().count()) } else { s.to_string() }
}

fn strip(ev: &[Event]) -> Vec<(usize, Vec<String>)> {
    ev.iter()
        .filter_map(|e| match e {
            Event::Action(p, c) => Some((
                *p,
                c.iter()
                    .map(|c| match c {
                        crate::bind::Child::N(n) => format!("N:{n}"),
                        crate::bind::Child::T(t) => format!("T:{}@{}", t.text, t.start),
                    })
                    .collect(),
            )),
            Event::Comment(t) => Some((usize::MAX, vec![t.text.clone()])),
        })
        .collect()
}

fn eval_c20(case: &Case, acc: &Acc) -> Vec<Violation> {
    let mut out = vec![];
    let Ok(Ok((_g, base))) = catch(|| generate_and_bind(&case.par, case.k, &GenCfg::default())) else {
        acc.outcome("not_accepted");
        return out;
    };
    // the same grammar generated with the options baked into the source
    let gens: Vec<(String, Bound)> = [(true, false, None), (false, true, None), (false, false, Some(3usize)), (true, true, Some(1000usize))]
        .iter()
        .filter_map(|(t, r, d)| {
            let cfg = GenCfg { trim: *t, recovery_disabled: *r, max_depth: *d, ..Default::default() };
            catch(|| generate_and_bind(&case.par, case.k, &cfg)).ok().and_then(|x| x.ok()).map(|(_, b)| (format!("generated(trim={t},no_recovery={r},depth={d:?})"), b))
        })
        .collect();
    if gens.len() != 4 {
        out.push(vio("option_changes_generation_result", format!("{}: generation fails with some option", case.short), case, None, json!({})));
    }
    let is_lr = matches!(base.tables, crate::bind::Tables::Lr { .. });
    let inputs = match &case.inputs {
        Some(i) => i.clone(),
        None => texts_over(&case.alphabet, case.n),
    };
    let mut nontrivial = false;
    for text in &inputs {
        let b = match catch(|| base.parse(text, &RunOpts::default())) {
            Ok(b) => b,
            Err(bp) => {
                // a crash of the default configuration is C19's business -- unless an option makes it go away:
                // then the option changes the outcome
                acc.outcome("baseline_panics(C19)");
                acc.eval(1);
                if let Ok(o) = catch(|| base.parse(text, &RunOpts { trim: true, ..Default::default() })) {
                    if !o.budget_exceeded {
                        out.push(vio(
                            "option_changes_verdict",
                            format!("{} | input {:?}: the parser with default options panics ({}), with trim_parse_tree it returns ok={}", case.short, text, panic_site(&bp), o.ok),
                            case,
                            Some(text),
                            json!({"variant": "trim", "baseline": "panic"}),
                        ));
                    }
                }
                continue;
            }
        };
        if b.budget_exceeded {
            acc.outcome("baseline_does_not_terminate(C19)");
            break;
        }
        let bt = strip(&b.events);
        let n_apps = bt.iter().filter(|e| e.0 != usize::MAX).count();
        let mut check = |name: &str, o: crate::bind::Outcome, depth: Option<usize>, out: &mut Vec<Violation>| -> Option<bool> {
            acc.eval(1);
            let depth_err = o.err.as_deref() == Some("ParserError::MaxParsingDepthExceeded");
            if depth_err {
                if depth.is_none() {
                    out.push(vio("depth_error_without_limit", format!("{} | {name} input {:?}", case.short, text), case, Some(text), json!({})));
                }
                return Some(true);
            }
            if o.ok != b.ok {
                out.push(vio(
                    "option_changes_verdict",
                    format!("{} | {name} input {:?}: ok={} but baseline ok={} (err {:?})", case.short, text, o.ok, b.ok, o.err),
                    case,
                    Some(text),
                    json!({"variant": name, "ok": o.ok, "baseline_ok": b.ok, "err": o.err}),
                ));
            } else if strip(&o.events) != bt {
                out.push(vio(
                    "option_changes_actions",
                    format!("{} | {name} input {:?}: action trace differs from baseline ({} vs {} calls)", case.short, text, o.events.len(), b.events.len()),
                    case,
                    Some(text),
                    json!({"variant": name}),
                ));
            }
            Some(false)
        };
        // runtime setters
        let mut variants: Vec<(String, RunOpts)> = vec![("trim".into(), RunOpts { trim: true, ..Default::default() })];
        if !is_lr {
            variants.push(("recovery_off".into(), RunOpts { recovery_disabled: true, ..Default::default() }));
            variants.push(("trim+recovery_off".into(), RunOpts { trim: true, recovery_disabled: true, ..Default::default() }));
        }
        for (name, opts) in &variants {
            // with recovery disabled the *errors* may differ, the verdict and (on success) actions not;
            // on failure action traces may legitimately be shorter/longer -> compare only on success
            match catch(|| base.parse(text, opts)) {
                Ok(o) => {
                    if opts.recovery_disabled && !b.ok {
                        acc.eval(1);
                        if o.ok {
                            out.push(vio("option_changes_verdict", format!("{} | {name} input {:?}: ok with recovery off, error with recovery on", case.short, text), case, Some(text), json!({})));
                        }
                    } else {
                        check(name, o, None, &mut out);
                    }
                }
                Err(p) => out.push(vio("option_causes_panic", format!("{} | {name} input {:?}: {}", case.short, text, panic_site(&p)), case, Some(text), json!({}))),
            }
        }
        // depth limits
        let lmax = n_apps + 3;
        let mut exceeded_at: Vec<(usize, bool)> = vec![];
        for l in (0..=lmax).chain([1_000_000usize]) {
            for trim in [false, true] {
                let opts = RunOpts { max_depth: Some(l), trim, ..Default::default() };
                match catch(|| base.parse(text, &opts)) {
                    Ok(o) => {
                        if let Some(ex) = check(&format!("depth={l},trim={trim}"), o, Some(l), &mut out) {
                            if !trim {
                                exceeded_at.push((l, ex));
                            }
                            if ex {
                                nontrivial = true;
                            }
                        }
                    }
                    Err(p) => out.push(vio("depth_limit_causes_panic", format!("{} | depth={l} input {:?}: {}", case.short, text, panic_site(&p)), case, Some(text), json!({"depth": l}))),
                }
            }
        }
        // monotone: once not exceeded at l, never exceeded at larger l; never at the huge limit
        let mut seen_ok = false;
        for (l, ex) in &exceeded_at {
            if *ex && seen_ok {
                out.push(vio("depth_error_not_monotone", format!("{} | input {:?}: limit {l} exceeded although a smaller limit was not", case.short, text), case, Some(text), json!({})));
            }
            if !*ex {
                seen_ok = true;
            }
            if *ex && *l == 1_000_000 {
                out.push(vio("depth_error_at_huge_limit", format!("{} | input {:?}", case.short, text), case, Some(text), json!({})));
            }
        }
        if b.ok && !is_lr {
            // LL: the depth never exceeds the number of production applications
            if exceeded_at.iter().any(|(l, ex)| *ex && *l >= n_apps.max(1)) {
                out.push(vio("depth_error_although_limit_not_reached", format!("{} | input {:?}: {n_apps} production applications", case.short, text), case, Some(text), json!({})));
            }
        }
        // generated-option variants
        for (name, gb) in &gens {
            match catch(|| gb.parse(text, &RunOpts::default())) {
                Ok(o) => {
                    let d = gb.src.max_depth;
                    if gb.src.recovery_disabled && !b.ok {
                        acc.eval(1);
                        if o.ok {
                            out.push(vio("option_changes_verdict", format!("{} | {name} input {:?}", case.short, text), case, Some(text), json!({})));
                        }
                    } else {
                        check(name, o, d, &mut out);
                    }
                }
                Err(p) => out.push(vio("option_causes_panic", format!("{} | {name} input {:?}: {}", case.short, text, panic_site(&p)), case, Some(text), json!({}))),
            }
        }
        if prune_by_class(&mut out, 3) > 60 {
            break;
        }
    }
    // the generated options must really be in the source
    for (name, gb) in &gens {
        let s = &gb.src;
        let ok = match name.as_str() {
            n if n.starts_with("generated(trim=true,no_recovery=false") => s.trim && !s.recovery_disabled,
            n if n.starts_with("generated(trim=false,no_recovery=true") => !s.trim && (s.recovery_disabled || is_lr),
            n if n.starts_with("generated(trim=false,no_recovery=false,depth=Some(3)") => s.max_depth == Some(3),
            _ => s.trim && s.max_depth == Some(1000),
        };
        if !ok {
            out.push(vio("generated_option_missing", format!("{}: {name} not reflected in generated parse_into", case.short), case, None, json!({})));
        }
    }
    if nontrivial {
        acc.distinct(&case.par);
        if acc.want_sample() {
            acc.sample(json!({"grammar": case.short, "inputs": inputs.len()}));
        }
    }
    out
}


// ---------------------------------------------------------------------------------------------
// C19 deep family: very long / deeply nested inputs in worker subprocesses on a thread with the
// default 2 MiB thread stack (a stack overflow aborts the process: neither Ok nor Err)
// ---------------------------------------------------------------------------------------------

const DEEP_GRAMMARS: [(&str, &str); 8] = [
    ("nest_ll", "%start S\n%%\nS: '(' S ')' | 'x';\n"),
    ("nest_lr", "%start S\n%grammar_type 'LALR(1)'\n%%\nS: '(' S ')' | 'x';\n"),
    ("unit_ll", "%start S\n%%\nS: E; E: T; T: F; F: '(' E ')' | 'x';\n"),
    ("unit_lr", "%start S\n%grammar_type 'LALR(1)'\n%%\nS: E; E: T; T: F; F: '(' E ')' | 'x';\n"),
    ("list_ll", "%start S\n%%\nS: 'a' S | ;\n"),
    ("rep_ll", "%start S\n%%\nS: { 'a' } 'x';\n"),
    ("left_lr", "%start S\n%grammar_type 'LALR(1)'\n%%\nS: S 'a' | 'x';\n"),
    ("right_lr", "%start S\n%grammar_type 'LALR(1)'\n%%\nS: 'a' S | 'x';\n"),
];
const DEEP_VARIANTS: [&str; 4] = ["valid", "surplus_at_end", "truncated", "foreign_in_the_middle"];

fn deep_input(g: &str, variant: &str, m: usize) -> String {
    let nest = g.starts_with("nest") || g.starts_with("unit");
    let (open, mid, close) = if nest { ("(", "x", ")") } else if g == "left_lr" { ("", "x", "a") } else if g == "list_ll" { ("a", "", "") } else { ("a", "x", "") };
    let mut s = String::new();
    s.push_str(&open.repeat(m));
    match variant {
        "foreign_in_the_middle" => s.push('?'),
        _ => s.push_str(mid),
    }
    match variant {
        "truncated" => s.push_str(&close.repeat(m / 2)),
        _ => s.push_str(&close.repeat(m)),
    }
    if variant == "surplus_at_end" {
        s.push_str(if nest { ")" } else { "?" });
    }
    s
}

/// entry of the worker subprocess: `verif C19-deep <grammar> <variant> <m> <trim> <norecovery>`
pub fn deep_worker(args: &[String]) -> i32 {
    let g = args[0].clone();
    let variant = args[1].clone();
    let m: usize = args[2].parse().unwrap();
    let trim = args[3] == "1";
    let norec = args[4] == "1";
    // on a thread with Rust's default thread stack size (2 MiB), as `std::thread::spawn` gives it
    let h = std::thread::Builder::new().stack_size(2 * 1024 * 1024).spawn(move || deep_run(&g, &variant, m, trim, norec)).unwrap();
    h.join().unwrap_or(3)
}

fn deep_run(g: &str, variant: &str, m: usize, trim: bool, norec: bool) -> i32 {
    let Some((_, par)) = DEEP_GRAMMARS.iter().find(|(n, _)| *n == g) else { return 2 };
    let Ok(Ok((_g, b))) = catch(|| generate_and_bind(par, 3, &GenCfg::default())) else {
        eprintln!("MACHINERY cannot generate {g}");
        return 2;
    };
    let text = deep_input(g, variant, m);
    let nest = g.starts_with("nest") || g.starts_with("unit");
    match catch(|| b.parse_flat(&text, &RunOpts { trim, recovery_disabled: norec, ..Default::default() })) {
        Ok((ok, _err, _calls)) => {
            let expect_ok = variant == "valid" || (variant == "truncated" && !nest);
            if ok != expect_ok {
                eprintln!("VERDICT ok={ok} expected {expect_ok}");
                return 4;
            }
            0
        }
        Err(p) => {
            eprintln!("PANIC {p}");
            3
        }
    }
}

fn deep_case(g: &str, variant: &str, m: usize, trim: bool, norec: bool) -> Option<Violation> {
    use std::os::unix::process::ExitStatusExt;
    let exe = std::env::current_exe().ok()?;
    let mut child = std::process::Command::new(exe)
        .args(["C19-deep", g, variant, &m.to_string(), if trim { "1" } else { "0" }, if norec { "1" } else { "0" }])
        .stdout(std::process::Stdio::null())
        .stderr(std::process::Stdio::piped())
        .spawn()
        .ok()?;
    let case = json!({"deep": {"grammar": g, "variant": variant, "m": m, "trim": trim, "no_recovery": norec}});
    let par = DEEP_GRAMMARS.iter().find(|(n, _)| *n == g).map(|x| x.1.replace('\n', " ")).unwrap_or_default();
    let desc = format!("[deep] {par}| input {variant} with {m} levels, trim={trim} recovery_off={norec}");
    let start = Instant::now();
    loop {
        match child.try_wait() {
            Ok(Some(st)) => {
                let mut e = String::new();
                if let Some(mut se) = child.stderr.take() {
                    use std::io::Read;
                    let _ = se.read_to_string(&mut e);
                }
                return match st.code() {
                    Some(0) => None,
                    Some(3) => Some(Violation { class: "panic_on_deep_input".into(), what: format!("{desc}: {}", panic_site(e.lines().find(|l| l.starts_with("PANIC")).unwrap_or(""))), case, detail: json!({}) }),
                    Some(4) => Some(Violation { class: "wrong_verdict_on_deep_input".into(), what: format!("{desc}: {}", e.lines().find(|l| l.starts_with("VERDICT")).unwrap_or("")), case, detail: json!({}) }),
                    Some(2) => {
                        eprintln!("MACHINERY: deep worker failed: {e}");
                        std::process::exit(2)
                    }
                    other => Some(Violation {
                        class: format!("abnormal_exit_on_deep_input({})", if g.ends_with("lr") { "LR" } else { "LL" }),
                        what: format!("{desc}: worker exits with code {other:?} signal {:?} (stack overflow?)", st.signal()),
                        case,
                        detail: json!({"stderr": e.chars().take(300).collect::<String>()}),
                    }),
                };
            }
            Ok(None) => {
                if start.elapsed().as_secs() > 900 {
                    let _ = child.kill();
                    let _ = child.wait();
                    return Some(Violation { class: "no_result_on_deep_input_after_900s".into(), what: desc, case, detail: json!({}) });
                }
                std::thread::sleep(std::time::Duration::from_millis(20));
            }
            Err(_) => return None,
        }
    }
}

fn run_deep(ctx: &Ctx, acc: &Acc, tier: Tier) {
    let ms: &[usize] = tier.pick(&[20_000], &[2_000, 20_000, 100_000]);
    let mut jobs = vec![];
    for (g, _) in DEEP_GRAMMARS {
        let lr = g.ends_with("lr");
        if tier == Tier::Quick && !(g.starts_with("nest") || g.starts_with("unit")) {
            continue;
        }
        for v in DEEP_VARIANTS {
            for m in ms {
                for trim in [false, true] {
                    for norec in if lr || tier == Tier::Quick { vec![false] } else { vec![false, true] } {
                        jobs.push((g, v, *m, trim, norec));
                    }
                }
            }
        }
    }
    acc.count("deep_jobs", jobs.len() as u64);
    jobs.par_iter().for_each(|(g, v, m, trim, norec)| {
        if ctx.expired() {
            acc.count("deep_jobs_skipped_by_cap", 1);
            return;
        }
        acc.eval(1);
        match deep_case(g, v, *m, *trim, *norec) {
            Some(vio) => acc.violation(vio),
            None => {
                acc.outcome("deep input: Ok or Err as expected");
                acc.distinct(&(g, v, m, trim, norec));
            }
        }
    });
}

fn cases(tier: Tier, c19: bool) -> Vec<Case> {
    let mut v = vec![];
    let n = if c19 { tier.pick(4, 5) } else { tier.pick(4, 5) };
    let mut grams = super::ll::ll_grammars(tier);
    grams.extend(super::lr::lr_grammars(tier));
    // C19/C20 do not need the whole space twice: keep grammars that are not rejected by the
    // reference closures
    grams.retain(|g| !g.is_bnf() || (if g.lalr { Bnf::of(g).well_formed_lr() } else { Bnf::of(g).well_formed_ll() }));
    let step = if c19 { tier.pick(1, 1) } else { tier.pick(2, 1) };
    for (i, g) in grams.iter().enumerate() {
        if i % step != 0 {
            continue;
        }
        let mut alphabet: Vec<String> = g.term_text.clone();
        alphabet.push("x".into());
        if c19 {
            alphabet.push(" ".into());
            if i % 5 == 0 {
                alphabet.push("é".into());
            }
        }
        v.push(Case { par: g.to_par(), short: g.short(), k: 3, inputs: None, alphabet, n, gen_trim: false, gen_no_recovery: false, gen_depth: None });
    }
    for (short, par, alphabet) in special_grammars() {
        v.push(Case { par, short, k: 3, inputs: None, alphabet, n: n + 1, gen_trim: false, gen_no_recovery: false, gen_depth: None });
    }
    v
}

pub fn run(id: &str, tier: Tier, replay: Option<&str>) -> i32 {
    let c19 = id == "C19";
    if let Some(p) = replay {
        let v = read_replay(p);
        if let Some(d) = v.get("deep") {
            let (g, var, m, trim, norec) = (d["grammar"].as_str().unwrap().to_string(), d["variant"].as_str().unwrap().to_string(), d["m"].as_u64().unwrap() as usize, d["trim"].as_bool().unwrap(), d["no_recovery"].as_bool().unwrap());
            return replay_verdict(id, p, || deep_case(&g, &var, m, trim, norec).into_iter().collect());
        }
        let case: Case = serde_json::from_value(v["case"].clone()).expect("bad replay case");
        return replay_verdict(id, p, || if c19 { eval_c19(&case, &Acc::default()) } else { eval_c20(&case, &Acc::default()) });
    }
    let ctx = std::sync::Arc::new(Ctx::new(id, tier));
    let acc = std::sync::Arc::new(Acc::default());
    let cs = cases(tier, c19);
    acc.count("grammars", cs.len() as u64);
    let rule = if c19 {
        "accepted grammars of the C01/C03 spaces (every 3rd in the quick tier) plus a menu of special grammars (terminals matching the empty string, overlapping regexes, comments, left-recursive LR) x every text of length <= n over the terminals, a foreign character, a blank and (every 5th grammar) a 2-byte character, plus long error families w x^m / (x )^m w / w( x)^m for m in {1,2,50,101,150}; recovery on and off; each run inside catch_unwind with an action-call budget and a wall-clock hang monitor (20 s per input); plus a deep family in worker subprocesses: 8 recursive grammars (nesting with and without unit productions, LL and LALR; thorough: also lists) x inputs of 20 000 (thorough: 2 000 / 20 000 / 100 000) levels, parsed on a thread with the default 2 MiB thread stack, valid / with a surplus token at the end / truncated / with a foreign character at the deepest point, x trim x recovery. Oracle: Ok or Err, no panic, no abnormal process exit, no hang, at most 101 reported errors; on the deep family also the expected verdict.".to_string()
    } else {
        "accepted grammars of the C01/C03 spaces (every 6th in the quick tier) plus special grammars x every text of length <= n; baseline = default options; variants: trim, recovery off, both, every depth limit 0..(#production applications + 3) and 10^6, each with/without trim, plus four parsers generated with the options baked into the source. Oracle: verdict and action trace equal the baseline unless MaxParsingDepthExceeded is returned; that error is monotone in the limit, absent at 10^6 and (LL) absent once the limit reaches the number of production applications; never a panic. Non-trivial = grammars on which some depth limit was exceeded.".to_string()
    };
    // hang monitor
    if c19 {
        let ctx2 = ctx.clone();
        let acc2 = acc.clone();
        let rule2 = rule.clone();
        std::thread::spawn(move || {
            loop {
                std::thread::sleep(std::time::Duration::from_millis(500));
                let hung = {
                    let c = CURRENT.lock().unwrap();
                    c.iter().flatten().find(|(t, _, _)| t.elapsed().as_secs() >= 20).cloned()
                };
                if let Some((_, case_json, text)) = hung {
                    let case: Case = serde_json::from_str(&case_json).unwrap();
                    acc2.violation(vio("parser_hangs", format!("{} | input {:?}: no result after 20 s", case.short, trunc(&text)), &case, Some(&text), json!({})));
                    let code = finish(&ctx2, &acc2, Finish { level: "exploration", rule: rule2.clone(), exhaustive_note: "aborted by hang monitor".into(), assumptions: vec![], extra: json!({"aborted_by_hang_monitor": true}) });
                    std::process::exit(code);
                }
            }
        });
    }
    if c19 {
        run_deep(&ctx, &acc, tier);
    }
    cs.par_iter().for_each(|c| {
        if ctx.expired() {
            acc.count("cases_skipped_by_cap", 1);
            return;
        }
        let vs = if c19 { eval_c19(c, &acc) } else { eval_c20(c, &acc) };
        for v in vs {
            acc.violation(v);
        }
    });
    finish(
        &ctx,
        &acc,
        Finish {
            level: if c19 { "exploration" } else { "model_checking" },
            rule,
            exhaustive_note: "all listed grammars and inputs unless capped=true".into(),
            assumptions: vec!["generated tables evaluated from the generated source text (see C21/C22)".into()],
            extra: if c19 {
                json!({})
            } else {
                let e = acc.evaluations.load(std::sync::atomic::Ordering::Relaxed).max(1);
                json!({"states": e, "transitions": e, "traces_validated_against_impl": e,
                    "explanation": "each evaluated (grammar, input, option setting) is one execution of the real parser compared with the baseline execution; option settings are the explored 'operations'"})
            },
        },
    )
}
