//! C01 (LL(k) parsers accept exactly the language) and C02 (trees/actions follow the leftmost
//! derivation): small-scope enumeration of grammars x inputs against L<=n and a derivation
//! checker.

use rayon::prelude::*;
use serde_json::{Value, json};

use crate::bind::{Bound, Child, Event, GenCfg, Generated, Node, RunOpts, Stage, generate_and_bind};
use crate::common::*;
use crate::gram::*;

pub fn bnf_space(tier: Tier) -> BnfSpace {
    match tier {
        Tier::Quick => BnfSpace { max_nt: 2, max_t: 2, max_len: 3, max_alts: 3, max_size: 7 },
        Tier::Thorough => BnfSpace { max_nt: 2, max_t: 2, max_len: 3, max_alts: 3, max_size: 8 },
    }
}

/// three non-terminals, well-formed for LL only (the ill-formed ones are C11's business)
pub fn bnf_space3(tier: Tier) -> BnfSpace {
    match tier {
        Tier::Quick => BnfSpace { max_nt: 3, max_t: 2, max_len: 3, max_alts: 2, max_size: 9 },
        Tier::Thorough => BnfSpace { max_nt: 3, max_t: 2, max_len: 3, max_alts: 2, max_size: 11 },
    }
}

pub fn spaces_text(tier: Tier) -> String {
    format!("all canonical BNF grammars of {:?}, the left-recursion-free productive reachable ones of {:?}{}", bnf_space(tier), bnf_space3(tier), if tier == Tier::Thorough { " and of nt<=3,t<=3,len<=3,alts<=3,size<=9" } else { "" })
}

pub fn ll_grammars(tier: Tier) -> Vec<Gram> {
    let mut v = enum_bnf(&bnf_space(tier), false);
    let mut three = enum_bnf_pre(&bnf_space3(tier), false, Pre::WellFormedLl);
    three.retain(|g| g.nts.len() == 3);
    v.extend(three);
    if tier == Tier::Thorough {
        let mut t3 = enum_bnf_pre(&BnfSpace { max_nt: 3, max_t: 3, max_len: 3, max_alts: 3, max_size: 9 }, false, Pre::WellFormedLl);
        t3.retain(|g| g.terms.len() == 3);
        v.extend(t3);
    }
    match tier {
        Tier::Quick => {
            v.extend(enum_ebnf(5, 2, 2, false, false));
            v.extend(enum_ebnf(4, 2, 1, true, false));
        }
        Tier::Thorough => {
            v.extend(enum_ebnf(6, 3, 2, false, false));
            v.extend(enum_ebnf(5, 2, 3, false, false));
            v.extend(enum_ebnf(5, 2, 2, true, false));
        }
    }
    v
}

pub fn print_spaces() {
    for (s, d, t, a) in [(4, 2, 2, false), (5, 2, 2, false), (6, 2, 2, false), (6, 3, 2, false), (5, 2, 3, false), (4, 2, 1, true), (5, 2, 2, true), (7, 2, 2, false)] {
        let t0 = std::time::Instant::now();
        crate::outln!("ebnf size<={s} depth<={d} t={t} with_a={a}: {} in {:?}", enum_ebnf(s, d, t, a, false).len(), t0.elapsed());
    }
    for sz in [7, 8, 9] {
        let t = std::time::Instant::now();
        let b = enum_bnf(&BnfSpace { max_nt: 2, max_t: 2, max_len: 3, max_alts: 3, max_size: sz }, false);
        crate::outln!("bnf nt2 t2 len3 alts3 size {sz}: {} in {:?}", b.len(), t.elapsed());
    }
}

/// plain BNF view of parol's transformed grammar: (lhs name, rhs) with terminals by text
#[derive(Clone, Debug, PartialEq, Eq)]
pub enum Sy {
    T(String),
    N(String),
}
pub fn transformed_bnf(g: &Generated) -> Vec<(String, Vec<Sy>)> {
    g.gc.cfg
        .pr
        .iter()
        .map(|p| {
            (
                p.get_n(),
                p.get_r()
                    .iter()
                    .filter_map(|s| match s {
                        parol::Symbol::N(n, ..) => Some(Sy::N(n.clone())),
                        parol::Symbol::T(parol::Terminal::Trm(t, ..)) => Some(Sy::T(t.clone())),
                        _ => None,
                    })
                    .collect(),
            )
        })
        .collect()
}

fn node_syms(children: &[Node]) -> Vec<Sy> {
    children
        .iter()
        .filter_map(|c| match c {
            Node::N(n, _) => Some(Sy::N(n.clone())),
            Node::T(t) if t.eff_skip => None,
            Node::T(t) => Some(Sy::T(t.text.clone())),
        })
        .collect()
}

/// Check that `root` is a derivation tree for the transformed grammar and that `events` are the
/// post-order production applications. Returns Err(description) on the first deviation.
pub fn check_derivation(
    root: &Node,
    events: &[Event],
    bnf: &[(String, Vec<Sy>)],
    start: &str,
    input_tokens: &[String],
) -> Result<usize, String> {
    let Node::N(rn, rc) = root else { return Err("root is a token".into()) };
    if !rn.is_empty() {
        return Err(format!("root node is named {rn:?}, expected \"\""));
    }
    let sig: Vec<&Node> = rc
        .iter()
        .filter(|c| match c {
            Node::T(t) => !t.eff_skip,
            _ => true,
        })
        .collect();
    if sig.len() != 1 {
        return Err(format!("root has {} significant children", sig.len()));
    }
    match sig[0] {
        Node::N(n, _) if n == start => {}
        other => return Err(format!("root child is {:?}, expected start symbol {start}", short_node(other))),
    }
    // post-order list of inner nodes
    fn post<'a>(n: &'a Node, out: &mut Vec<(&'a str, &'a [Node])>) {
        if let Node::N(name, c) = n {
            for x in c {
                post(x, out);
            }
            out.push((name, c));
        }
    }
    let mut nodes = vec![];
    post(sig[0], &mut nodes);
    let acts: Vec<(usize, &Vec<Child>)> = events
        .iter()
        .filter_map(|e| match e {
            Event::Action(p, c) => Some((*p, c)),
            _ => None,
        })
        .collect();
    for (name, c) in &nodes {
        let syms = node_syms(c);
        if !bnf.iter().any(|(l, r)| l == name && *r == syms) {
            return Err(format!("node {name} has children {syms:?}: not a production of {name}"));
        }
    }
    if acts.len() != nodes.len() {
        return Err(format!("{} action calls for {} production applications", acts.len(), nodes.len()));
    }
    for (i, ((p, ch), (name, c))) in acts.iter().zip(nodes.iter()).enumerate() {
        let Some((l, r)) = bnf.get(*p) else { return Err(format!("action {i}: production {p} out of range")) };
        if l != name {
            return Err(format!("action {i}: production {p} has lhs {l}, post-order node is {name}"));
        }
        let syms = node_syms(c);
        if *r != syms {
            return Err(format!("action {i}: production {p} rhs {r:?} but node children {syms:?}"));
        }
        // children slice = the node's significant children
        let want: Vec<Child> = c
            .iter()
            .filter_map(|x| match x {
                Node::N(n, _) => Some(Child::N(n.clone())),
                Node::T(t) if t.eff_skip => None,
                Node::T(t) => Some(Child::T(t.clone())),
            })
            .collect();
        if **ch != want {
            return Err(format!("action {i} (production {p}): children slice {:?} differs from tree children {:?}", short_children(ch), short_children(&want)));
        }
    }
    // leaves = input tokens
    let mut leaves = vec![];
    root.leaves(&mut leaves);
    let lt: Vec<String> = leaves.iter().filter(|t| !t.eff_skip).map(|t| t.text.clone()).collect();
    if lt != input_tokens {
        return Err(format!("tree yield {lt:?} differs from input tokens {input_tokens:?}"));
    }
    Ok(nodes.len())
}

fn short_node(n: &Node) -> String {
    match n {
        Node::N(n, _) => format!("N({n})"),
        Node::T(t) => format!("T({:?})", t.text),
    }
}
fn short_children(c: &[Child]) -> Vec<String> {
    c.iter()
        .map(|c| match c {
            Child::N(n) => format!("N({n})"),
            Child::T(t) => format!("T({:?}@{})", t.text, t.start),
        })
        .collect()
}

#[derive(serde::Serialize, serde::Deserialize, Clone, Debug)]
pub struct Case {
    pub gram: Gram,
    pub k: usize,
    /// token string (terminal numbers; 200 = foreign); None = all strings up to n
    pub input: Option<Vec<u8>>,
    pub n: usize,
}

pub struct Mode {
    pub c01: bool,
    pub c02: bool,
}

fn vio(class: &str, what: String, case: &Case, w: &[u8], detail: Value) -> Violation {
    let mut c = case.clone();
    c.input = Some(w.to_vec());
    Violation {
        class: class.to_string(),
        what,
        case: json!({"case": c, "par": case.gram.to_par()}),
        detail,
    }
}

/// Evaluate one (grammar, K): returns violations. `acc` receives coverage counts.
pub fn eval_case(case: &Case, mode: &Mode, acc: &Acc) -> Vec<Violation> {
    let g = &case.gram;
    let par = g.to_par();
    let mut out = vec![];
    let r = catch(|| generate_and_bind(&par, case.k, &GenCfg::default()));
    let (gen_, bound): (Generated, Bound) = match r {
        Err(p) => {
            // a panic of the generator is C26's business; recorded as an outcome here
            acc.outcome(&format!("generator_panic"));
            let _ = p;
            return out;
        }
        Ok(Err(e)) => {
            if e.msg.starts_with("BIND:") {
                acc.outcome("bind_failed");
                out.push(vio("machinery_bind", format!("cannot bind generated source: {}", e.msg), case, &[], json!({})));
                return out;
            }
            acc.outcome(match e.stage {
                Stage::Parse => "rejected:parse",
                Stage::Check => "rejected:check",
                Stage::Analysis => "rejected:analysis",
                Stage::Generate => "rejected:generate",
            });
            return out;
        }
        Ok(Ok(x)) => x,
    };
    acc.outcome("accepted");
    acc.count("accepted_grammar_k_pairs", 1);
    let lang = g.lang(case.n);
    let bnf = transformed_bnf(&gen_);
    let start = gen_.gc.cfg.st.clone();
    let inputs: Vec<Vec<u8>> = match &case.input {
        Some(w) => vec![w.clone()],
        None => all_strings(g.terms.len(), true, case.n),
    };
    let mut n_sent = 0u64;
    let mut n_non = 0u64;
    for w in &inputs {
        let in_lang = lang.contains(w);
        let variants: &[&str] = if w.len() >= 2 { &["", " "] } else { &[""] };
        for sep in variants {
            let text = g.render_input(w, sep);
            let mut first: Option<(bool, Vec<Event>)> = None;
            for rec_dis in [false, true] {
                let o = match catch(|| bound.parse(&text, &RunOpts { recovery_disabled: rec_dis, ..Default::default() })) {
                    Ok(o) => o,
                    Err(_) => {
                        acc.outcome("parser_panic");
                        continue; // C19's business
                    }
                };
                acc.eval(1);
                if in_lang { n_sent += 1 } else { n_non += 1 }
                if mode.c01 {
                    if o.ok != in_lang {
                        let class = if o.ok { "accepts_non_sentence" } else { "rejects_sentence" };
                        out.push(vio(
                            class,
                            format!("{} | K={} input {:?} recovery_disabled={} parse ok={} but sentence={}", g.short(), case.k, text, rec_dis, o.ok, in_lang),
                            case,
                            w,
                            json!({"input": text, "recovery_disabled": rec_dis, "ok": o.ok, "in_language": in_lang, "err": o.err}),
                        ));
                    }
                    acc.outcome(&format!("ok={} in_lang={} recovery_disabled={}", o.ok, in_lang, rec_dis));
                }
                // every *successful* parse must deliver a derivation tree of its input (for an input that is
                // not a sentence no such tree exists, so a wrongly successful parse is reported here too)
                if mode.c02 && o.ok {
                    if let Some(pe) = &o.protocol_error {
                        out.push(vio("tree_protocol", format!("{} | input {:?}: tree builder protocol error: {pe}", g.short(), text), case, w, json!({"input": text})));
                    } else {
                        let toks: Vec<String> = w.iter().map(|t| g.term_text.get(*t as usize).cloned().unwrap_or_else(|| "x".to_string())).collect();
                        match check_derivation(o.tree.as_ref().unwrap(), &o.events, &bnf, &start, &toks) {
                            Ok(napps) => acc.outcome(&format!("derivation_ok apps={}", napps.min(12))),
                            Err(m) => out.push(vio(
                                "not_a_derivation",
                                format!("{} | K={} input {:?} recovery_disabled={}: {m}", g.short(), case.k, text, rec_dis),
                                case,
                                w,
                                json!({"input": text, "recovery_disabled": rec_dis, "why": m}),
                            )),
                        }
                    }
                    match &first {
                        None => first = Some((o.ok, o.events.clone())),
                        Some((_, ev)) => {
                            if strip_loc(ev) != strip_loc(&o.events) {
                                out.push(vio("actions_differ_with_recovery_setting", format!("{} | input {:?}", g.short(), text), case, w, json!({})));
                            }
                        }
                    }
                }
            }
        }
    }
    if n_sent > 0 && n_non > 0 {
        acc.distinct_n(n_sent + n_non);
        acc.count("grammars_with_sentences_and_non_sentences", 1);
    }
    acc.fallback(|| json!({"grammar": g.short(), "K": case.k, "inputs": inputs.len()}));
    if acc.want_sample() && n_sent > 2 {
        acc.sample(json!({"grammar": g.short(), "K": case.k, "max_k_found": gen_.max_k, "inputs": inputs.len(), "sentence_runs": n_sent, "non_sentence_runs": n_non}));
    }
    out
}

fn strip_loc(ev: &[Event]) -> Vec<(usize, usize)> {
    ev.iter()
        .filter_map(|e| match e {
            Event::Action(p, c) => Some((*p, c.len())),
            _ => None,
        })
        .collect()
}

pub fn run(id: &str, tier: Tier, replay: Option<&str>) -> i32 {
    let mode = Mode { c01: id == "C01", c02: id == "C02" };
    if let Some(p) = replay {
        let v = read_replay(p);
        let case: Case = serde_json::from_value(v["case"].clone()).expect("bad replay case");
        return replay_verdict(id, p, || eval_case(&case, &mode, &Acc::default()));
    }
    let ctx = Ctx::new(id, tier);
    let acc = Acc::default();
    let grams = ll_grammars(tier);
    let n = tier.pick(5, 7);
    let ks: &[usize] = tier.pick(&[1, 3], &[1, 2, 3, 5]);
    let mut cases = vec![];
    for g in &grams {
        for k in ks {
            cases.push(Case { gram: g.clone(), k: *k, input: None, n });
        }
    }
    acc.count("grammar_k_pairs_enumerated", cases.len() as u64);
    acc.count("grammars_enumerated", grams.len() as u64);
    cases.par_iter().for_each(|c| {
        if ctx.expired() {
            acc.count("cases_skipped_by_cap", 1);
            return;
        }
        for v in eval_case(c, &mode, &acc) {
            acc.violation(v);
        }
    });
    let rule = format!(
        "{} plus EBNF bodies (groups/optionals/repetitions, depth<=2..3) as PAR text, lookahead limit K in {:?}; for each grammar parol accepts as LL(K): every token string of length <= {} over its terminals plus one foreign token, rendered with and without blanks, with recovery on and off, through the real scanner and LLKParser. Non-trivial = runs on grammars that have both sentences and non-sentences within the bound.",
        spaces_text(tier), ks, n
    );
    finish(
        &ctx,
        &acc,
        Finish {
            level: "exploration",
            rule,
            exhaustive_note: "all grammars of the stated space and all inputs up to the stated length, unless capped=true".into(),
            assumptions: vec![
                "generated tables are evaluated from the generated source text with syn instead of rustc (validated by C21/C22)".into(),
                "scanner built by scnr2_generate's public NFA/DFA construction, the one the scanner! macro runs".into(),
            ],
            extra: json!({}),
        },
    )
}
