//! C29: diagnostics reflect the latest document version — exhaustive exploration of the
//! schedules of background analyses against edit histories, on the real Server (hooks H3/H4).

use rayon::prelude::*;
use serde_json::{Value, json};

use crate::common::*;
use crate::ls::*;

const URI: &str = "file:///verif.par";

fn menu() -> Vec<(&'static str, String)> {
    vec![
        ("valid_ll1", "%start S\n%%\nS: 'a' S | 'b';\n".to_string()),
        ("syntax_error", "%start S\n%%\nS: 'a' | ;;\n".to_string()),
        ("not_llk", "%start S\n%%\nS: A 'x' | A 'y';\nA: 'a' A | 'a';\n".to_string()),
        ("valid_ll2", "%start S\n%%\nS: 'a' 'b' | 'a' 'c';\n".to_string()),
        ("lalr_resolved_conflict", "%start S\n%grammar_type 'LALR(1)'\n%%\nS: 'i' S | 'i' S 'e' S | 'x';\n".to_string()),
        ("lalr_ok", "%start S\n%grammar_type 'LALR(1)'\n%%\nS: S 'a' | 'b';\n".to_string()),
        ("left_recursive", "%start S\n%%\nS: S 'a' | 'b';\n".to_string()),
    ]
}

/// one step of a schedule
#[derive(Clone, Debug, PartialEq, Eq, serde::Serialize, serde::Deserialize)]
enum Step {
    /// deliver the next notification; `now` = its background analysis (if any) completes before
    /// the handler continues
    /// the handler continues; `then` = queued analyses of earlier notifications that complete after
    /// that, while the handler is still running (before its own report)
    Notify {
        now: bool,
        #[serde(default)]
        then: Vec<usize>,
    },
    /// run the queued background task with this index
    Run(usize),
}

#[derive(serde::Serialize, serde::Deserialize, Clone, Debug)]
struct Case {
    history: Vec<String>,
    schedule: Option<Vec<Step>>,
}

/// publishes of one execution: (version, number of diagnostics, source step)
#[derive(Clone, Debug, PartialEq, Eq)]
struct Publish {
    version: Option<i64>,
    n: usize,
}

fn publishes(msgs: &[Value]) -> Vec<Publish> {
    msgs.iter()
        .filter(|m| m["notification"] == "textDocument/publishDiagnostics")
        .map(|m| Publish { version: m["params"]["version"].as_i64(), n: m["params"]["diagnostics"].as_array().map(|a| a.len()).unwrap_or(0) })
        .collect()
}

/// Execute a schedule from scratch; returns the publishes in order and the indices of tasks still
/// pending, or Err on a protocol problem.
fn execute(ls: &mut Ls, texts: &[String], schedule: &[Step]) -> Result<(Vec<Publish>, Vec<usize>, usize), String> {
    ls.new_session(2, true);
    ls.call(json!({"cmd": "gate", "closed": true, "run_now": [], "after_spawn": []}))?;
    let mut next = 0usize;
    let mut out = vec![];
    for s in schedule {
        match s {
            Step::Notify { now, then } => {
                // the choices for the spawn of *this* notification (a notification whose text does not
                // reach the background analysis leaves them unused; the next one replaces them)
                ls.call(json!({"cmd": "gate", "closed": true, "run_now": [now], "after_spawn": [then]}))?;
                let v = if next == 0 { ls.open(URI, 1, &texts[0])? } else { ls.change(URI, (next + 1) as i64, &texts[next])? };
                if let Some(p) = v.get("panic") {
                    return Err(format!("handler panics: {p}"));
                }
                next += 1;
            }
            Step::Run(i) => {
                let v = ls.call(json!({"cmd": "run", "index": i}))?;
                if let Some(p) = v.get("panic") {
                    return Err(format!("background analysis panics: {p}"));
                }
                if v["ran"] != true {
                    return Err(format!("task {i} is not pending"));
                }
            }
        }
        out.extend(publishes(&ls.messages()));
    }
    let pending = ls.pending();
    Ok((out, pending, next))
}

/// all ordered selections (incl. the empty one) of the given items
fn ordered_subsets(items: &[usize]) -> Vec<Vec<usize>> {
    let mut res = vec![vec![]];
    let mut layer: Vec<Vec<usize>> = vec![vec![]];
    for _ in 0..items.len() {
        let mut nx = vec![];
        for w in &layer {
            for i in items {
                if !w.contains(i) {
                    let mut z = w.clone();
                    z.push(*i);
                    nx.push(z);
                }
            }
        }
        res.extend(nx.iter().cloned());
        layer = nx;
    }
    res
}

/// the diagnostics the final text alone produces: true = some
fn alone_has_diagnostics(ls: &mut Ls, text: &str) -> Result<bool, String> {
    ls.new_session(2, true);
    ls.call(json!({"cmd": "gate", "closed": true, "run_now": []}))?;
    ls.open(URI, 1, text)?;
    let mut p = publishes(&ls.messages());
    for i in ls.pending() {
        ls.call(json!({"cmd": "run", "index": i}))?;
        p.extend(publishes(&ls.messages()));
    }
    Ok(p.iter().any(|x| x.n > 0))
}

fn eval(case: &Case, acc: &Acc) -> Vec<Violation> {
    let mut out = vec![];
    let m = menu();
    let texts: Vec<String> = case.history.iter().map(|k| m.iter().find(|x| x.0 == k).map(|x| x.1.clone()).unwrap_or_default()).collect();
    let n = texts.len();
    let final_version = n as i64;
    let mkv = |class: &str, what: String, sched: &[Step]| {
        let mut c = case.clone();
        c.schedule = Some(sched.to_vec());
        Violation { class: class.into(), what, case: json!({"sched": c}), detail: json!({}) }
    };
    with_ls(|ls| {
        let expect_some = match alone_has_diagnostics(ls, texts.last().unwrap()) {
            Ok(b) => b,
            Err(e) => {
                out.push(mkv("machinery_reference_run", e, &[]));
                return;
            }
        };
        // depth-first search over schedules; the real server is re-executed for every prefix
        let mut stack: Vec<Vec<Step>> = match &case.schedule {
            Some(s) => vec![s.clone()],
            None => vec![vec![]],
        };
        let mut classes = std::collections::BTreeSet::new();
        let mut explored_sequences: std::collections::BTreeSet<Vec<(Option<i64>, usize)>> = std::collections::BTreeSet::new();
        while let Some(sched) = stack.pop() {
            acc.eval(1);
            acc.count("transitions", 1);
            let (pubs, pending, delivered) = match execute(ls, &texts, &sched) {
                Ok(x) => x,
                Err(e) => {
                    out.push(mkv("execution_problem", format!("history {:?} schedule {:?}: {e}", case.history, sched), &sched));
                    continue;
                }
            };
            if delivered == n && pending.is_empty() {
                acc.count("complete_schedules", 1);
                explored_sequences.insert(pubs.iter().map(|p| (p.version, p.n)).collect());
                // oracle
                let last = pubs.last();
                let verdict = match last {
                    None => Some(("no_diagnostics_published".to_string(), "nothing was published".to_string())),
                    Some(p) => {
                        if p.version != Some(final_version) {
                            Some(("last_publish_carries_superseded_version".to_string(), format!("last publish has version {:?}, the final version is {final_version}", p.version)))
                        } else if (p.n > 0) != expect_some {
                            let class = if expect_some { "final_error_overwritten_by_ok" } else { "stale_error_for_final_version" };
                            Some((class.to_string(), format!("last publish for version {final_version} has {} diagnostics, the final text alone {}", p.n, if expect_some { "produces diagnostics" } else { "produces none" })))
                        } else {
                            None
                        }
                    }
                };
                acc.outcome(&format!("{:?}", verdict.as_ref().map(|v| v.0.clone()).unwrap_or("ok".into())));
                if let Some((class, why)) = verdict {
                    // narrow the class by the shape of the schedule
                    let any_now = sched.iter().any(|s| matches!(s, Step::Notify { now: true, .. }));
                    let late_run = {
                        // a task that runs after a later notification was delivered
                        let mut notified = 0;
                        let mut late = false;
                        for s in &sched {
                            match s {
                                Step::Notify { then, .. } => {
                                    notified += 1;
                                    if then.iter().any(|i| *i + 1 < notified) {
                                        late = true;
                                    }
                                }
                                Step::Run(i) => {
                                    if *i + 1 < notified {
                                        late = true;
                                    }
                                }
                            }
                        }
                        late
                    };
                    let class = format!("{class}({})", if late_run { "analysis_finishes_after_a_later_edit" } else if any_now { "analysis_finishes_before_the_handler_reports" } else { "in_order" });
                    if classes.insert(class.clone()) || case.schedule.is_some() {
                        out.push(mkv(&class, format!("history {:?} schedule {:?}: publishes {:?}: {why}", case.history, sched, pubs.iter().map(|p| (p.version, p.n)).collect::<Vec<_>>()), &sched));
                    }
                }
                continue;
            }
            if case.schedule.is_some() {
                continue;
            }
            // successors
            for i in pending.iter().rev() {
                let mut s2 = sched.clone();
                s2.push(Step::Run(*i));
                stack.push(s2);
            }
            if delivered < n {
                for now in [true, false] {
                    // queued analyses of earlier notifications may complete while this handler runs; in
                    // terms of publish order this differs from "before the handler" only when the new
                    // analysis has already reported (now = true)
                    let thens: Vec<Vec<usize>> = if now { ordered_subsets(&pending) } else { vec![vec![]] };
                    for then in thens {
                        let mut s2 = sched.clone();
                        s2.push(Step::Notify { now, then });
                        stack.push(s2);
                    }
                }
            }
        }
        // seam conformance: the same history with the gate open (real threads); the observed
        // publish sequence must be one of the explored ones
        if case.schedule.is_none() {
            for _ in 0..3 {
                ls.new_session(2, false);
                let mut ok = true;
                for (i, t) in texts.iter().enumerate() {
                    let r = if i == 0 { ls.open(URI, 1, t) } else { ls.change(URI, (i + 1) as i64, t) };
                    ok &= r.is_ok();
                }
                let _ = ls.call(json!({"cmd": "join"}));
                let seq: Vec<(Option<i64>, usize)> = publishes(&ls.messages()).iter().map(|p| (p.version, p.n)).collect();
                if ok {
                    acc.count("free_running_runs", 1);
                    if explored_sequences.contains(&seq) {
                        acc.count("free_running_runs_among_explored_schedules", 1);
                    } else {
                        out.push(mkv("machinery_seam_nonconformance", format!("history {:?}: free-running threads produced {:?}, which no explored schedule produces", case.history, seq), &[]));
                    }
                }
            }
            let _ = ls.call(json!({"cmd": "gate", "closed": true}));
        }
    });
    acc.distinct(&case.history);
    acc.fallback(|| json!({"history": case.history}));
    if acc.want_sample() && case.history.len() >= 2 {
        acc.sample(json!({"history": case.history}));
    }
    out
}

pub fn run(tier: Tier, replay: Option<&str>) -> i32 {
    if let Some(p) = replay {
        let v = read_replay(p);
        let case: Case = serde_json::from_value(v["sched"].clone()).expect("bad replay");
        return replay_verdict("C29", p, || eval(&case, &Acc::default()));
    }
    let ctx = Ctx::new("C29", tier);
    let acc = Acc::default();
    let m = menu();
    let keys: Vec<&str> = m.iter().map(|x| x.0).collect();
    let depth = tier.pick(2, 4);
    let mut histories: Vec<Vec<String>> = vec![];
    let mut layer: Vec<Vec<String>> = vec![vec![]];
    for _ in 0..depth {
        let mut nx = vec![];
        for h in &layer {
            for k in &keys {
                let mut z = h.clone();
                z.push(k.to_string());
                nx.push(z);
            }
        }
        histories.extend(nx.iter().cloned());
        layer = nx;
    }
    acc.count("histories", histories.len() as u64);
    let cases: Vec<Case> = histories.into_iter().map(|h| Case { history: h, schedule: None }).collect();
    cases.par_iter().for_each(|c| {
        if ctx.expired() {
            acc.count("histories_skipped_by_cap", 1);
            return;
        }
        for v in eval(c, &acc) {
            acc.violation(v);
        }
    });
    // seam conformance: free-running threads on a few histories; every observed final state must
    // be among those the explorer produced for that history (recorded as outcome only)
    let c = acc.counters.lock().unwrap().clone();
    let tr = c.get("transitions").copied().unwrap_or(1).max(1);
    let cs = c.get("complete_schedules").copied().unwrap_or(0);
    finish(
        &ctx,
        &acc,
        Finish {
            level: "model_checking",
            rule: format!("histories: every sequence of 1..={depth} open/change notifications over 7 document texts (valid LL(1), syntax error, not LL(k) for the server's max_k, valid LL(2), LALR with a resolved conflict, valid LALR, left recursive); for each history a depth-first search over all schedules: notifications are handled in order; the background analysis a notification spawns either completes before the handler continues (its publish precedes the handler's own) or is queued and runs at any later point, also after later edits and also while a later handler is still running (between that handler's own analysis report and its final report); every prefix is re-executed on a fresh real Server (hooks H3/H4). Oracle on every complete schedule (all notifications delivered, no analysis pending): the last publishDiagnostics carries the final version and is empty exactly when the final text alone produces no diagnostic."),
            exhaustive_note: "all histories up to the stated length and all schedules of each unless capped=true".into(),
            assumptions: vec![
                "a background analysis is one atomic step: its closure owns clones of all inputs and has exactly one visible effect, one send on the connection".into(),
                "the reference 'diagnostics of the final text alone' is obtained from the same server on a fresh session".into(),
            ],
            extra: json!({"states": tr, "transitions": tr, "traces_validated_against_impl": tr, "complete_schedules": cs,
                "explanation": "every explored schedule prefix is an execution of the real Server; there is no separate model"}),
        },
    )
}
