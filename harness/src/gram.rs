//! Harness-side grammar representation (EBNF tree), PAR printer, enumerators and the
//! reference language L<=n.  Nothing in here calls into parol.

use std::collections::BTreeSet;

#[derive(Clone, PartialEq, Eq, Hash, PartialOrd, Ord, Debug, serde::Serialize, serde::Deserialize)]
pub enum Fac {
    T(u8),
    N(u8),
    Group(Alts),
    Opt(Alts),
    Rep(Alts),
}
pub type Seq = Vec<Fac>;
pub type Alts = Vec<Seq>;

/// A grammar: non-terminal 0 is the start symbol. `prods[i]` = (lhs, alternatives).  Several
/// entries may share one lhs (PAR allows that).
#[derive(Clone, PartialEq, Eq, Hash, PartialOrd, Ord, Debug, serde::Serialize, serde::Deserialize)]
pub struct Gram {
    pub nts: Vec<String>,
    /// PAR spelling of each terminal, e.g. `'a'`
    pub terms: Vec<String>,
    /// text that a token of this terminal has in an input
    pub term_text: Vec<String>,
    pub prods: Vec<(u8, Alts)>,
    pub lalr: bool,
    /// extra header lines (scanner directives etc.)
    pub header: Vec<String>,
    /// per non-terminal: text appended to every right-hand-side occurrence (`^`, `@m`, ` : T`)
    #[serde(default)]
    pub deco: Vec<String>,
}

pub const NT_NAMES: [&str; 4] = ["S", "A", "B", "C"];
pub const T_CHARS: [&str; 7] = ["a", "b", "c", "d", "e", "f", "g"];

impl Gram {
    pub fn simple(nnt: usize, nt: usize, prods: Vec<(u8, Alts)>, lalr: bool) -> Gram {
        Gram {
            nts: NT_NAMES[..nnt].iter().map(|s| s.to_string()).collect(),
            terms: T_CHARS[..nt].iter().map(|s| format!("'{s}'")).collect(),
            term_text: T_CHARS[..nt].iter().map(|s| s.to_string()).collect(),
            prods,
            lalr,
            header: vec![],
            deco: vec![],
        }
    }

    fn fmt_alts(&self, alts: &Alts, out: &mut String) {
        for (i, seq) in alts.iter().enumerate() {
            if i > 0 {
                out.push_str(" |");
            }
            for f in seq {
                out.push(' ');
                match f {
                    Fac::T(t) => out.push_str(&self.terms[*t as usize]),
                    Fac::N(n) => {
                        out.push_str(&self.nts[*n as usize]);
                        if let Some(d) = self.deco.get(*n as usize) {
                            out.push_str(d);
                        }
                    }
                    Fac::Group(a) => {
                        out.push('(');
                        self.fmt_alts(a, out);
                        out.push_str(" )");
                    }
                    Fac::Opt(a) => {
                        out.push('[');
                        self.fmt_alts(a, out);
                        out.push_str(" ]");
                    }
                    Fac::Rep(a) => {
                        out.push('{');
                        self.fmt_alts(a, out);
                        out.push_str(" }");
                    }
                }
            }
        }
    }

    pub fn to_par(&self) -> String {
        let mut s = format!("%start {}\n", self.nts[0]);
        if self.lalr {
            s.push_str("%grammar_type 'LALR(1)'\n");
        }
        for h in &self.header {
            s.push_str(h);
            s.push('\n');
        }
        s.push_str("%%\n");
        for (lhs, alts) in &self.prods {
            s.push_str(&self.nts[*lhs as usize]);
            s.push(':');
            self.fmt_alts(alts, &mut s);
            s.push_str(" ;\n");
        }
        s
    }

    /// one-line rendering for samples / replay files
    pub fn short(&self) -> String {
        let mut s = String::new();
        if self.lalr {
            s.push_str("[LALR] ");
        }
        for (lhs, alts) in &self.prods {
            s.push_str(&self.nts[*lhs as usize]);
            s.push(':');
            self.fmt_alts(alts, &mut s);
            s.push_str("; ");
        }
        s.trim_end().to_string()
    }

    pub fn is_bnf(&self) -> bool {
        self.prods
            .iter()
            .all(|(_, a)| a.iter().all(|s| s.iter().all(|f| matches!(f, Fac::T(_) | Fac::N(_)))))
    }

    /// BNF productions as (lhs, rhs) with rhs symbols Sym
    pub fn bnf_prods(&self) -> Vec<(u8, Vec<Fac>)> {
        let mut v = vec![];
        for (l, alts) in &self.prods {
            for s in alts {
                v.push((*l, s.clone()));
            }
        }
        v
    }

    pub fn render_input(&self, w: &[u8], sep: &str) -> String {
        let mut s = String::new();
        for (i, t) in w.iter().enumerate() {
            if i > 0 {
                s.push_str(sep);
            }
            if (*t as usize) < self.term_text.len() {
                s.push_str(&self.term_text[*t as usize]);
            } else {
                s.push_str(FOREIGN);
            }
        }
        s
    }
}

/// text of the foreign token (matches no terminal of any enumerated grammar)
pub const FOREIGN: &str = "x";
/// index used for the foreign token in token strings
pub const FOREIGN_T: u8 = 200;

// ---------------------------------------------------------------------------------------------
// reference language L<=n
// ---------------------------------------------------------------------------------------------

pub type Lang = BTreeSet<Vec<u8>>;

fn cat(a: &Lang, b: &Lang, n: usize) -> Lang {
    let mut r = Lang::new();
    for x in a {
        for y in b {
            if x.len() + y.len() <= n {
                let mut z = x.clone();
                z.extend_from_slice(y);
                r.insert(z);
            }
        }
    }
    r
}

fn star(a: &Lang, n: usize) -> Lang {
    let mut r = Lang::new();
    r.insert(vec![]);
    loop {
        let mut nx = cat(&r, a, n);
        nx.insert(vec![]);
        let before = r.len();
        r.extend(nx);
        if r.len() == before {
            return r;
        }
    }
}

fn lang_alts(alts: &Alts, env: &[Lang], n: usize) -> Lang {
    let mut r = Lang::new();
    for seq in alts {
        let mut cur = Lang::new();
        cur.insert(vec![]);
        for f in seq {
            let l = match f {
                Fac::T(t) => {
                    let mut l = Lang::new();
                    if n >= 1 {
                        l.insert(vec![*t]);
                    }
                    l
                }
                Fac::N(x) => env[*x as usize].clone(),
                Fac::Group(a) => lang_alts(a, env, n),
                Fac::Opt(a) => {
                    let mut l = lang_alts(a, env, n);
                    l.insert(vec![]);
                    l
                }
                Fac::Rep(a) => star(&lang_alts(a, env, n), n),
            };
            cur = cat(&cur, &l, n);
            if cur.is_empty() {
                break;
            }
        }
        r.extend(cur);
    }
    r
}

/// L<=n for every non-terminal, by Kleene iteration from bottom.
pub fn langs(nnt: usize, prods: &[(u8, Alts)], n: usize) -> Vec<Lang> {
    let mut env: Vec<Lang> = vec![Lang::new(); nnt];
    loop {
        let mut changed = false;
        for (lhs, alts) in prods {
            let l = lang_alts(alts, &env, n);
            let e = &mut env[*lhs as usize];
            let before = e.len();
            e.extend(l);
            if e.len() != before {
                changed = true;
            }
        }
        if !changed {
            return env;
        }
    }
}

impl Gram {
    pub fn lang(&self, n: usize) -> Lang {
        langs(self.nts.len(), &self.prods, n).swap_remove(0)
    }
    pub fn langs(&self, n: usize) -> Vec<Lang> {
        langs(self.nts.len(), &self.prods, n)
    }
}

/// all strings over 0..nt (plus FOREIGN_T if `foreign`) of length <= n, shortest first
pub fn all_strings(nt: usize, foreign: bool, n: usize) -> Vec<Vec<u8>> {
    let mut alpha: Vec<u8> = (0..nt as u8).collect();
    if foreign {
        alpha.push(FOREIGN_T);
    }
    let mut res = vec![vec![]];
    let mut layer = vec![vec![]];
    for _ in 0..n {
        let mut nx = vec![];
        for w in &layer {
            for a in &alpha {
                let mut z: Vec<u8> = w.clone();
                z.push(*a);
                nx.push(z);
            }
        }
        res.extend(nx.iter().cloned());
        layer = nx;
    }
    res
}

// ---------------------------------------------------------------------------------------------
// plain-definition closures on BNF
// ---------------------------------------------------------------------------------------------

pub struct Bnf {
    pub nnt: usize,
    pub nt: usize,
    pub prods: Vec<(u8, Vec<Fac>)>,
}

impl Bnf {
    pub fn of(g: &Gram) -> Bnf {
        assert!(g.is_bnf());
        Bnf { nnt: g.nts.len(), nt: g.terms.len(), prods: g.bnf_prods() }
    }
    pub fn nullable(&self) -> Vec<bool> {
        let mut v = vec![false; self.nnt];
        loop {
            let mut ch = false;
            for (l, r) in &self.prods {
                if !v[*l as usize]
                    && r.iter().all(|f| matches!(f, Fac::N(x) if v[*x as usize]))
                {
                    v[*l as usize] = true;
                    ch = true;
                }
            }
            if !ch {
                return v;
            }
        }
    }
    pub fn productive(&self) -> Vec<bool> {
        let mut v = vec![false; self.nnt];
        loop {
            let mut ch = false;
            for (l, r) in &self.prods {
                if !v[*l as usize]
                    && r.iter().all(|f| match f {
                        Fac::N(x) => v[*x as usize],
                        _ => true,
                    })
                {
                    v[*l as usize] = true;
                    ch = true;
                }
            }
            if !ch {
                return v;
            }
        }
    }
    pub fn reachable(&self) -> Vec<bool> {
        let mut v = vec![false; self.nnt];
        v[0] = true;
        loop {
            let mut ch = false;
            for (l, r) in &self.prods {
                if v[*l as usize] {
                    for f in r {
                        if let Fac::N(x) = f {
                            if !v[*x as usize] {
                                v[*x as usize] = true;
                                ch = true;
                            }
                        }
                    }
                }
            }
            if !ch {
                return v;
            }
        }
    }
    /// A =>+ A alpha  (A left-recursive): A can-start-with+ A where X can-start-with Y iff
    /// X -> alpha Y beta with alpha nullable.
    pub fn left_recursive(&self) -> Vec<bool> {
        let nul = self.nullable();
        let n = self.nnt;
        let mut m = vec![vec![false; n]; n];
        for (l, r) in &self.prods {
            for f in r {
                match f {
                    Fac::N(x) => {
                        m[*l as usize][*x as usize] = true;
                        if !nul[*x as usize] {
                            break;
                        }
                    }
                    _ => break,
                }
            }
        }
        for k in 0..n {
            for i in 0..n {
                for j in 0..n {
                    if m[i][k] && m[k][j] {
                        m[i][j] = true;
                    }
                }
            }
        }
        (0..n).map(|i| m[i][i]).collect()
    }
    /// some non-terminal derives itself: A =>+ A
    pub fn cyclic(&self) -> bool {
        let nul = self.nullable();
        let n = self.nnt;
        let mut m = vec![vec![false; n]; n];
        for (l, r) in &self.prods {
            for (i, f) in r.iter().enumerate() {
                if let Fac::N(x) = f {
                    let rest_nullable = r.iter().enumerate().all(|(j, g)| j == i || matches!(g, Fac::N(y) if nul[*y as usize]));
                    if rest_nullable {
                        m[*l as usize][*x as usize] = true;
                    }
                }
            }
        }
        for k in 0..n {
            for i in 0..n {
                for j in 0..n {
                    if m[i][k] && m[k][j] {
                        m[i][j] = true;
                    }
                }
            }
        }
        (0..n).any(|i| m[i][i])
    }
    pub fn well_formed_ll(&self) -> bool {
        self.productive().iter().all(|b| *b)
            && self.reachable().iter().all(|b| *b)
            && !self.left_recursive().iter().any(|b| *b)
    }
    pub fn well_formed_lr(&self) -> bool {
        self.productive().iter().all(|b| *b) && self.reachable().iter().all(|b| *b)
    }
}

// ---------------------------------------------------------------------------------------------
// BNF enumerator
// ---------------------------------------------------------------------------------------------

#[derive(Clone, Copy, Debug)]
pub struct BnfSpace {
    pub max_nt: usize,
    pub max_t: usize,
    pub max_len: usize,
    pub max_alts: usize,
    /// total size bound sum(1+|rhs|) over all alternatives
    pub max_size: usize,
}

fn all_rhs(nnt: usize, nt: usize, max_len: usize) -> Vec<Vec<Fac>> {
    let mut syms: Vec<Fac> = (0..nt as u8).map(Fac::T).collect();
    syms.extend((0..nnt as u8).map(Fac::N));
    let mut res: Vec<Vec<Fac>> = vec![vec![]];
    let mut layer: Vec<Vec<Fac>> = vec![vec![]];
    for _ in 0..max_len {
        let mut nx = vec![];
        for w in &layer {
            for a in &syms {
                let mut z = w.clone();
                z.push(a.clone());
                nx.push(z);
            }
        }
        res.extend(nx.iter().cloned());
        layer = nx;
    }
    res
}

/// all sorted subsets of size 1..=max_alts of `rhs` with total size <= budget
fn alt_sets(rhs: &[Vec<Fac>], max_alts: usize, budget: usize) -> Vec<(Alts, usize)> {
    fn rec(
        rhs: &[Vec<Fac>],
        start: usize,
        left: usize,
        budget: usize,
        cur: &mut Alts,
        used: usize,
        out: &mut Vec<(Alts, usize)>,
    ) {
        if !cur.is_empty() {
            out.push((cur.clone(), used));
        }
        if left == 0 {
            return;
        }
        for i in start..rhs.len() {
            let c = 1 + rhs[i].len();
            if used + c > budget {
                continue;
            }
            cur.push(rhs[i].clone());
            rec(rhs, i + 1, left - 1, budget, cur, used + c, out);
            cur.pop();
        }
    }
    let mut out = vec![];
    rec(rhs, 0, max_alts, budget, &mut vec![], 0, &mut out);
    out
}

fn rename(prods: &[Alts], ntp: &[u8], tp: &[u8]) -> Vec<Alts> {
    // ntp[old] = new
    let mut res: Vec<Alts> = vec![vec![]; prods.len()];
    for (old, alts) in prods.iter().enumerate() {
        let mut a: Alts = alts
            .iter()
            .map(|s| {
                s.iter()
                    .map(|f| match f {
                        Fac::T(t) => Fac::T(tp[*t as usize]),
                        Fac::N(n) => Fac::N(ntp[*n as usize]),
                        _ => unreachable!(),
                    })
                    .collect()
            })
            .collect();
        a.sort();
        res[ntp[old] as usize] = a;
    }
    res
}

fn perms(n: usize) -> Vec<Vec<u8>> {
    fn rec(n: usize, cur: &mut Vec<u8>, out: &mut Vec<Vec<u8>>) {
        if cur.len() == n {
            out.push(cur.clone());
            return;
        }
        for i in 0..n as u8 {
            if !cur.contains(&i) {
                cur.push(i);
                rec(n, cur, out);
                cur.pop();
            }
        }
    }
    let mut out = vec![];
    rec(n, &mut vec![], &mut out);
    out
}

fn is_canonical(prods: &[Alts], nnt: usize, nt: usize) -> bool {
    // all terminals 0..nt must be used (otherwise the grammar belongs to a smaller nt)
    let mut used_t = vec![false; nt];
    for a in prods {
        for s in a {
            for f in s {
                if let Fac::T(t) = f {
                    used_t[*t as usize] = true;
                }
            }
        }
    }
    if used_t.iter().any(|u| !u) {
        return false;
    }
    let cur: Vec<Alts> = prods.to_vec();
    for np in perms(nnt) {
        if np[0] != 0 {
            continue;
        }
        for tp in perms(nt) {
            let r = rename(prods, &np, &tp);
            if r < cur {
                return false;
            }
        }
    }
    true
}

#[derive(Clone, Copy, PartialEq, Eq, Debug)]
pub enum Pre {
    All,
    /// productive and reachable
    WellFormedLr,
    /// productive, reachable, not left-recursive
    WellFormedLl,
}

/// Enumerate canonical BNF grammars of the space, simplest-first (by nnt, then nt, then
/// lexicographic).  `pre` is applied before the (more expensive) canonicity test.
pub fn enum_bnf_pre(sp: &BnfSpace, lalr: bool, pre: Pre) -> Vec<Gram> {
    use rayon::prelude::*;
    let mut out = vec![];
    for nnt in 1..=sp.max_nt {
        for nt in 0..=sp.max_t {
            let rhs = all_rhs(nnt, nt, sp.max_len);
            let sets = alt_sets(&rhs, sp.max_alts, sp.max_size);
            // product over nnt non-terminals with size budget
            fn rec(
                sets: &[(Alts, usize)],
                nnt: usize,
                nt: usize,
                budget: usize,
                cur: &mut Vec<Alts>,
                used: usize,
                lalr: bool,
                pre: Pre,
                out: &mut Vec<Gram>,
            ) {
                if cur.len() == nnt {
                    let ok = match pre {
                        Pre::All => true,
                        _ => {
                            let b = Bnf { nnt, nt, prods: cur.iter().enumerate().flat_map(|(i, a)| a.iter().map(move |s| (i as u8, s.clone()))).collect() };
                            if pre == Pre::WellFormedLl { b.well_formed_ll() } else { b.well_formed_lr() }
                        }
                    };
                    if ok && is_canonical(cur, nnt, nt) {
                        let prods = cur.iter().enumerate().map(|(i, a)| (i as u8, a.clone())).collect();
                        out.push(Gram::simple(nnt, nt, prods, lalr));
                    }
                    return;
                }
                for (a, c) in sets {
                    if used + c > budget {
                        continue;
                    }
                    cur.push(a.clone());
                    rec(sets, nnt, nt, budget, cur, used + c, lalr, pre, out);
                    cur.pop();
                }
            }
            // parallel over the alternatives of the start symbol
            let parts: Vec<Vec<Gram>> = sets
                .par_iter()
                .map(|(a, c)| {
                    let mut o = vec![];
                    if *c <= sp.max_size {
                        let mut cur = vec![a.clone()];
                        rec(&sets, nnt, nt, sp.max_size, &mut cur, *c, lalr, pre, &mut o);
                    }
                    o
                })
                .collect();
            for p in parts {
                out.extend(p);
            }
        }
    }
    out
}

pub fn enum_bnf(sp: &BnfSpace, lalr: bool) -> Vec<Gram> {
    enum_bnf_pre(sp, lalr, Pre::All)
}

// ---------------------------------------------------------------------------------------------
// EBNF enumerator (size-bounded)
// ---------------------------------------------------------------------------------------------
//
// size(terminal / non-terminal) = 1; size(bracket) = 1 + size(alternation);
// size(alternation) = sum of the sizes of its alternatives + (number of `|`).

type Memo = std::collections::HashMap<(u8, usize, usize), std::rc::Rc<Vec<Seq>>>;

/// all sequences of exactly `size`, nesting depth <= depth
fn e_seqs(syms: &[Fac], size: usize, depth: usize, memo: &mut Memo) -> std::rc::Rc<Vec<Seq>> {
    if let Some(v) = memo.get(&(0, size, depth)) {
        return v.clone();
    }
    let mut res: Vec<Seq> = vec![];
    if size == 0 {
        res.push(vec![]);
    } else {
        for k in 1..=size {
            let firsts = e_factors(syms, k, depth, memo);
            let rests = e_seqs(syms, size - k, depth, memo);
            for f in firsts.iter() {
                for r in rests.iter() {
                    let mut s = f.clone();
                    s.extend(r.iter().cloned());
                    res.push(s);
                }
            }
        }
    }
    let rc = std::rc::Rc::new(res);
    memo.insert((0, size, depth), rc.clone());
    rc
}

/// all alternations (as Vec<Seq>) of exactly `size` with 1..=3 alternatives, pairwise distinct
fn e_alts(syms: &[Fac], size: usize, depth: usize, memo: &mut Memo) -> Vec<Alts> {
    let mut res: Vec<Alts> = vec![];
    for s in e_seqs(syms, size, depth, memo).iter() {
        if !s.is_empty() {
            res.push(vec![s.clone()]);
        }
    }
    if size >= 2 {
        // two alternatives: sizes i + j = size - 1
        for i in 0..size {
            let j = size - 1 - i;
            let a = e_seqs(syms, i, depth, memo);
            let b = e_seqs(syms, j, depth, memo);
            for x in a.iter() {
                for y in b.iter() {
                    if x != y {
                        res.push(vec![x.clone(), y.clone()]);
                    }
                }
            }
        }
    }
    if size >= 4 {
        // three alternatives: i + j + l = size - 2
        for i in 0..=size - 2 {
            for j in 0..=size - 2 - i {
                let l = size - 2 - i - j;
                let a = e_seqs(syms, i, depth, memo);
                let b = e_seqs(syms, j, depth, memo);
                let c = e_seqs(syms, l, depth, memo);
                for x in a.iter() {
                    for y in b.iter() {
                        if x == y {
                            continue;
                        }
                        for z in c.iter() {
                            if x != z && y != z {
                                res.push(vec![x.clone(), y.clone(), z.clone()]);
                            }
                        }
                    }
                }
            }
        }
    }
    res
}

/// single factors (as one-element sequences) of exactly `size`
fn e_factors(syms: &[Fac], size: usize, depth: usize, memo: &mut Memo) -> std::rc::Rc<Vec<Seq>> {
    if let Some(v) = memo.get(&(1, size, depth)) {
        return v.clone();
    }
    let mut res: Vec<Seq> = vec![];
    if size == 1 {
        res.extend(syms.iter().map(|s| vec![s.clone()]));
    }
    if depth > 0 && size >= 2 {
        for a in e_alts(syms, size - 1, depth - 1, memo) {
            res.push(vec![Fac::Group(a.clone())]);
            res.push(vec![Fac::Opt(a.clone())]);
            res.push(vec![Fac::Rep(a)]);
        }
    }
    let rc = std::rc::Rc::new(res);
    memo.insert((1, size, depth), rc.clone());
    rc
}

fn has_bracket(alts: &Alts) -> bool {
    alts.iter().any(|s| s.iter().any(|f| !matches!(f, Fac::T(_) | Fac::N(_))))
}
fn uses_nt(alts: &Alts, n: u8) -> bool {
    alts.iter().any(|s| {
        s.iter().any(|f| match f {
            Fac::N(x) => *x == n,
            Fac::T(_) => false,
            Fac::Group(a) | Fac::Opt(a) | Fac::Rep(a) => uses_nt(a, n),
        })
    })
}
fn uses_all_t(alts: &Alts, nt: usize) -> bool {
    fn mark(alts: &Alts, m: &mut Vec<bool>, first: &mut Vec<u8>) {
        for s in alts {
            for f in s {
                match f {
                    Fac::T(t) => {
                        m[*t as usize] = true;
                        if !first.contains(t) {
                            first.push(*t);
                        }
                    }
                    Fac::N(_) => {}
                    Fac::Group(a) | Fac::Opt(a) | Fac::Rep(a) => mark(a, m, first),
                }
            }
        }
    }
    let mut m = vec![false; nt];
    let mut first = vec![];
    mark(alts, &mut m, &mut first);
    // canonical: terminals appear in order of first use, all used
    m.iter().all(|b| *b) && first.windows(2).all(|w| w[0] < w[1])
}

/// EBNF grammars `S: <alternation of size <= max_size containing at least one bracket>;` over
/// `nt` terminals (canonical up to terminal renaming).  With `with_a` the body may (and then
/// must) refer to a second non-terminal A taken from a small menu (plain, nullable, recursive
/// into S).
pub fn enum_ebnf(max_size: usize, depth: usize, nt: usize, with_a: bool, lalr: bool) -> Vec<Gram> {
    let mut syms: Vec<Fac> = (0..nt as u8).map(Fac::T).collect();
    if with_a {
        syms.push(Fac::N(1));
    }
    let a_bodies: Vec<Alts> = vec![
        vec![vec![Fac::T(0)]],
        vec![vec![Fac::T(0)], vec![]],
        vec![vec![Fac::T((nt - 1) as u8), Fac::N(0)], vec![Fac::T(0)]],
    ];
    let mut out = vec![];
    let mut memo = Memo::new();
    for size in 2..=max_size {
        for alts in e_alts(&syms, size, depth, &mut memo) {
            if !has_bracket(&alts) || !uses_all_t(&alts, nt) {
                continue;
            }
            if with_a {
                if !uses_nt(&alts, 1) {
                    continue;
                }
                for ab in &a_bodies {
                    out.push(Gram::simple(2, nt, vec![(0, alts.clone()), (1, ab.clone())], lalr));
                }
            } else {
                out.push(Gram::simple(1, nt, vec![(0, alts.clone())], lalr));
            }
        }
    }
    out
}
