//! Driver for the parol-ls hook protocol (JSON lines over stdin/stdout of a hooks-on parol-ls).

use serde_json::{Value, json};
use std::cell::RefCell;
use std::io::{BufRead, BufReader, Write};
use std::process::{Child, ChildStdin, ChildStdout, Command, Stdio};

pub struct Ls {
    child: Child,
    stdin: ChildStdin,
    stdout: BufReader<ChildStdout>,
    pub restarts: usize,
}

fn exe() -> std::path::PathBuf {
    crate::common::verif_root().join(".build").join("ls").join("debug").join("parol-ls")
}

impl Ls {
    pub fn start() -> Ls {
        let mut child = Command::new(exe())
            .env("PAROL_LS_VERIF", "1")
            .stdin(Stdio::piped())
            .stdout(Stdio::piped())
            .stderr(Stdio::null())
            .spawn()
            .unwrap_or_else(|e| {
                eprintln!("MACHINERY: cannot start {} ({e}); run tools/build_ls.sh", exe().display());
                std::process::exit(2)
            });
        let stdin = child.stdin.take().unwrap();
        let stdout = BufReader::new(child.stdout.take().unwrap());
        Ls { child, stdin, stdout, restarts: 0 }
    }

    /// Send one command; Err = the server process died (abort / stack overflow / exit)
    pub fn call(&mut self, cmd: Value) -> Result<Value, String> {
        let line = serde_json::to_string(&cmd).unwrap();
        if writeln!(self.stdin, "{line}").is_err() || self.stdin.flush().is_err() {
            return Err(self.died());
        }
        loop {
            let mut reply = String::new();
            match self.stdout.read_line(&mut reply) {
                Ok(0) | Err(_) => return Err(self.died()),
                Ok(_) => {
                    // anything without the marker is output of parol itself
                    if let Some(r) = reply.strip_prefix("@@VERIF ") {
                        return serde_json::from_str(r).map_err(|e| format!("bad reply {r:?}: {e}"));
                    }
                }
            }
        }
    }

    fn died(&mut self) -> String {
        let status = self.child.wait().map(|s| format!("{s:?}")).unwrap_or_default();
        let n = self.restarts + 1;
        *self = Ls::start();
        self.restarts = n;
        format!("server process died: {status}")
    }

    pub fn new_session(&mut self, max_k: usize, gate_closed: bool) {
        let _ = self.call(json!({"cmd": "new", "max_k": max_k}));
        let _ = self.call(json!({"cmd": "gate", "closed": gate_closed}));
    }

    pub fn open(&mut self, uri: &str, version: i64, text: &str) -> Result<Value, String> {
        self.call(json!({"cmd": "notify", "method": "textDocument/didOpen",
            "params": {"textDocument": {"uri": uri, "languageId": "parol", "version": version, "text": text}}}))
    }

    pub fn change(&mut self, uri: &str, version: i64, text: &str) -> Result<Value, String> {
        self.call(json!({"cmd": "notify", "method": "textDocument/didChange",
            "params": {"textDocument": {"uri": uri, "version": version}, "contentChanges": [{"text": text}]}}))
    }

    pub fn request(&mut self, method: &str, params: Value) -> Result<Value, String> {
        self.call(json!({"cmd": "request", "method": method, "params": params}))
    }

    pub fn messages(&mut self) -> Vec<Value> {
        self.call(json!({"cmd": "messages"})).ok().and_then(|v| v["messages"].as_array().cloned()).unwrap_or_default()
    }

    pub fn pending(&mut self) -> Vec<usize> {
        self.call(json!({"cmd": "pending"}))
            .ok()
            .and_then(|v| v["pending"].as_array().map(|a| a.iter().map(|x| x.as_u64().unwrap() as usize).collect()))
            .unwrap_or_default()
    }
}

impl Drop for Ls {
    fn drop(&mut self) {
        let _ = self.child.kill();
        let _ = self.child.wait();
    }
}

thread_local! {
    static LS: RefCell<Option<Ls>> = const { RefCell::new(None) };
}

/// one server process per worker thread
pub fn with_ls<R>(f: impl FnOnce(&mut Ls) -> R) -> R {
    LS.with(|c| {
        let mut c = c.borrow_mut();
        if c.is_none() {
            *c = Some(Ls::start());
        }
        f(c.as_mut().unwrap())
    })
}

/// Apply LSP text edits (UTF-16 positions; texts here are chosen so that UTF-16 code units and
/// chars coincide except where stated) to a text. Edits must not overlap.
pub fn apply_edits(text: &str, edits: &[(u32, u32, u32, u32, String)]) -> Result<String, String> {
    // positions -> byte offsets
    let line_starts: Vec<usize> = std::iter::once(0).chain(text.match_indices('\n').map(|(i, _)| i + 1)).collect();
    let off = |line: u32, ch: u32| -> usize {
        if line as usize >= line_starts.len() {
            return text.len();
        }
        let start = line_starts[line as usize];
        let end = line_starts.get(line as usize + 1).map(|e| *e).unwrap_or(text.len());
        let l = &text[start..end];
        let mut units = 0u32;
        for (i, c) in l.char_indices() {
            if units >= ch || c == '\n' || c == '\r' {
                return start + i;
            }
            units += c.len_utf16() as u32;
        }
        end
    };
    let mut es: Vec<(usize, usize, &String)> = edits.iter().map(|(l0, c0, l1, c1, t)| (off(*l0, *c0), off(*l1, *c1), t)).collect();
    es.sort_by_key(|e| (e.0, e.1));
    let mut out = String::new();
    let mut pos = 0;
    for (s, e, t) in es {
        if s < pos || e < s {
            return Err(format!("overlapping or inverted edits at {s}..{e}"));
        }
        out.push_str(&text[pos..s]);
        out.push_str(t);
        pos = e;
    }
    out.push_str(&text[pos..]);
    Ok(out)
}

pub fn edits_of(v: &Value) -> Vec<(u32, u32, u32, u32, String)> {
    v.as_array()
        .map(|a| {
            a.iter()
                .map(|e| {
                    (
                        e["range"]["start"]["line"].as_u64().unwrap_or(0) as u32,
                        e["range"]["start"]["character"].as_u64().unwrap_or(0) as u32,
                        e["range"]["end"]["line"].as_u64().unwrap_or(0) as u32,
                        e["range"]["end"]["character"].as_u64().unwrap_or(0) as u32,
                        e["newText"].as_str().unwrap_or("").to_string(),
                    )
                })
                .collect()
        })
        .unwrap_or_default()
}
