//! Reference models over a plain BNF taken from a parol `Cfg`: FIRST_k / FOLLOW_k by Kleene
//! iteration on sets of plain vectors, strong-LL(k) lookahead sets, minimal k.
//! Terminal ids are parol's terminal indices (0 = end of input, user terminals from 5).

use std::collections::{BTreeMap, BTreeSet};

pub type Str = Vec<u16>;
pub type Set = BTreeSet<Str>;
pub const END: u16 = 0;

#[derive(Clone, Debug, PartialEq, Eq)]
pub enum RSym {
    T(u16),
    N(usize),
}

#[derive(Clone, Debug)]
pub struct RBnf {
    /// non-terminal names in parol's index order (sorted by name)
    pub nts: Vec<String>,
    pub prods: Vec<(usize, Vec<RSym>)>,
    pub start: usize,
    /// terminal index -> text
    pub tnames: BTreeMap<u16, String>,
}

impl RBnf {
    /// Build from a parol Cfg. The terminal numbering is `get_ordered_terminals` order + 5.
    pub fn of(cfg: &parol::Cfg) -> RBnf {
        let nts: Vec<String> = cfg.get_non_terminal_set().into_iter().collect();
        let ord = cfg.get_ordered_terminals_owned();
        let mut tnames = BTreeMap::new();
        for (i, t) in ord.iter().enumerate() {
            tnames.insert((i + 5) as u16, t.0.clone());
        }
        let tidx = |s: &parol::Symbol| -> u16 {
            match s {
                parol::Symbol::T(parol::Terminal::Trm(t, k, _, _, _, _, l)) => {
                    let p = ord
                        .iter()
                        .position(|(ot, ok, ol, _)| ot == t && ok.behaves_like(*k) && ol == l)
                        .expect("terminal not in ordered terminals");
                    (p + 5) as u16
                }
                _ => panic!("not a terminal"),
            }
        };
        let prods = cfg
            .pr
            .iter()
            .map(|p| {
                let lhs = nts.iter().position(|n| *n == p.get_n()).unwrap();
                let rhs = p
                    .get_r()
                    .iter()
                    .filter_map(|s| match s {
                        parol::Symbol::N(n, ..) => {
                            Some(RSym::N(nts.iter().position(|x| x == n).expect("undefined nt")))
                        }
                        parol::Symbol::T(parol::Terminal::Trm(..)) => Some(RSym::T(tidx(s))),
                        _ => None,
                    })
                    .collect();
                (lhs, rhs)
            })
            .collect();
        let start = nts.iter().position(|n| *n == cfg.st).unwrap_or(0);
        RBnf { nts, prods, start, tnames }
    }

    pub fn terminals(&self) -> Vec<u16> {
        self.tnames.keys().copied().collect()
    }
}

/// k-truncated concatenation; a string ending in END cannot be extended
pub fn kcat(a: &Set, b: &Set, k: usize) -> Set {
    let mut r = Set::new();
    for x in a {
        if x.len() >= k || x.last() == Some(&END) {
            let mut z = x.clone();
            z.truncate(k);
            r.insert(z);
            continue;
        }
        for y in b {
            let mut z = x.clone();
            for t in y {
                if z.len() >= k {
                    break;
                }
                z.push(*t);
            }
            r.insert(z);
        }
    }
    r
}

pub fn eps_set() -> Set {
    let mut s = Set::new();
    s.insert(vec![]);
    s
}

pub struct First {
    pub prods: Vec<Set>,
    pub nts: Vec<Set>,
}

pub fn first_of_seq(seq: &[RSym], nts: &[Set], k: usize) -> Set {
    let mut cur = eps_set();
    for s in seq {
        let l = match s {
            RSym::T(t) => {
                let mut l = Set::new();
                l.insert(if k == 0 { vec![] } else { vec![*t] });
                l
            }
            RSym::N(n) => nts[*n].clone(),
        };
        cur = kcat(&cur, &l, k);
        if cur.is_empty() {
            break;
        }
    }
    cur
}

pub fn first_k(g: &RBnf, k: usize) -> First {
    let mut nts: Vec<Set> = vec![Set::new(); g.nts.len()];
    loop {
        let mut changed = false;
        for (l, r) in &g.prods {
            let f = first_of_seq(r, &nts, k);
            let before = nts[*l].len();
            nts[*l].extend(f);
            changed |= nts[*l].len() != before;
        }
        if !changed {
            break;
        }
    }
    let prods = g.prods.iter().map(|(_, r)| first_of_seq(r, &nts, k)).collect();
    First { prods, nts }
}

pub fn follow_k(g: &RBnf, k: usize, first: &First) -> Vec<Set> {
    let mut fo: Vec<Set> = vec![Set::new(); g.nts.len()];
    fo[g.start].insert(if k == 0 { vec![] } else { vec![END] });
    loop {
        let mut changed = false;
        for (l, r) in &g.prods {
            for (i, s) in r.iter().enumerate() {
                if let RSym::N(a) = s {
                    let beta = first_of_seq(&r[i + 1..], &first.nts, k);
                    let add = kcat(&beta, &fo[*l].clone(), k);
                    let before = fo[*a].len();
                    fo[*a].extend(add);
                    changed |= fo[*a].len() != before;
                }
            }
        }
        if !changed {
            return fo;
        }
    }
}

/// strong-LL(k) lookahead set of every production: FIRST_k(alpha) (+)k FOLLOW_k(A)
pub fn la_sets(g: &RBnf, k: usize) -> Vec<Set> {
    let first = first_k(g, k);
    let follow = follow_k(g, k, &first);
    g.prods.iter().enumerate().map(|(i, (l, _))| kcat(&first.prods[i], &follow[*l], k)).collect()
}

/// productions of a non-terminal
pub fn prods_of(g: &RBnf, nt: usize) -> Vec<usize> {
    g.prods.iter().enumerate().filter(|(_, (l, _))| *l == nt).map(|(i, _)| i).collect()
}

/// Is `nt` decidable with strong-LL(k) lookahead at exactly this k?
pub fn decidable_at(g: &RBnf, nt: usize, la: &[Set]) -> bool {
    let ps = prods_of(g, nt);
    for (x, i) in ps.iter().enumerate() {
        for j in &ps[x + 1..] {
            if la[*i].intersection(&la[*j]).next().is_some() {
                return false;
            }
        }
    }
    true
}

/// minimal k in 1..=max_k for every non-terminal (0 for single-production ones), None if none
pub fn minimal_ks(g: &RBnf, max_k: usize) -> Vec<Option<usize>> {
    let n = g.nts.len();
    let mut res: Vec<Option<usize>> = vec![None; n];
    let mut open: Vec<usize> = vec![];
    for nt in 0..n {
        if prods_of(g, nt).len() <= 1 {
            res[nt] = Some(0);
        } else {
            open.push(nt);
        }
    }
    for k in 1..=max_k {
        if open.is_empty() {
            break;
        }
        let la = la_sets(g, k);
        open.retain(|nt| {
            if decidable_at(g, *nt, &la) {
                res[*nt] = Some(k);
                false
            } else {
                true
            }
        });
    }
    res
}
