//! Evaluate the constant table expressions of a generated parser source with `syn`.

use std::collections::BTreeMap;
use syn::visit::Visit;

#[derive(Clone, Debug, PartialEq)]
pub enum Val {
    Int(i64),
    Str(String),
    Bool(bool),
    Arr(Vec<Val>),
    Tup(Vec<Val>),
    Struct(String, Vec<(String, Val)>),
    Call(String, Vec<Val>),
    Path(String),
}

impl Val {
    pub fn int(&self) -> i64 {
        match self {
            Val::Int(i) => *i,
            _ => panic!("not an int: {self:?}"),
        }
    }
    pub fn str(&self) -> &str {
        match self {
            Val::Str(s) => s,
            _ => panic!("not a str: {self:?}"),
        }
    }
    pub fn bool(&self) -> bool {
        match self {
            Val::Bool(s) => *s,
            _ => panic!("not a bool: {self:?}"),
        }
    }
    pub fn arr(&self) -> &[Val] {
        match self {
            Val::Arr(s) => s,
            _ => panic!("not an array: {self:?}"),
        }
    }
    pub fn tup(&self) -> &[Val] {
        match self {
            Val::Tup(s) => s,
            _ => panic!("not a tuple: {self:?}"),
        }
    }
    pub fn field(&self, name: &str) -> &Val {
        match self {
            Val::Struct(_, f) => {
                &f.iter().find(|(n, _)| n == name).unwrap_or_else(|| panic!("no field {name}")).1
            }
            _ => panic!("not a struct: {self:?}"),
        }
    }
}

fn path_str(p: &syn::Path) -> String {
    p.segments.iter().map(|s| s.ident.to_string()).collect::<Vec<_>>().join("::")
}

pub fn eval(e: &syn::Expr) -> Result<Val, String> {
    use syn::Expr::*;
    Ok(match e {
        Reference(r) => eval(&r.expr)?,
        Paren(p) => eval(&p.expr)?,
        Group(p) => eval(&p.expr)?,
        Array(a) => Val::Arr(a.elems.iter().map(eval).collect::<Result<_, _>>()?),
        Tuple(a) => Val::Tup(a.elems.iter().map(eval).collect::<Result<_, _>>()?),
        Struct(s) => {
            let mut f = vec![];
            for fv in &s.fields {
                let name = match &fv.member {
                    syn::Member::Named(i) => i.to_string(),
                    syn::Member::Unnamed(i) => i.index.to_string(),
                };
                f.push((name, eval(&fv.expr)?));
            }
            Val::Struct(path_str(&s.path), f)
        }
        Call(c) => {
            let name = match &*c.func {
                Path(p) => path_str(&p.path),
                _ => return Err("call of non-path".into()),
            };
            Val::Call(name, c.args.iter().map(eval).collect::<Result<_, _>>()?)
        }
        Path(p) => Val::Path(path_str(&p.path)),
        Lit(l) => match &l.lit {
            syn::Lit::Int(i) => Val::Int(i.base10_parse::<i64>().map_err(|e| e.to_string())?),
            syn::Lit::Str(s) => Val::Str(s.value()),
            syn::Lit::Bool(b) => Val::Bool(b.value),
            _ => return Err("unsupported literal".into()),
        },
        Unary(u) => match u.op {
            syn::UnOp::Neg(_) => Val::Int(-eval(&u.expr)?.int()),
            _ => return Err("unsupported unary".into()),
        },
        Cast(c) => eval(&c.expr)?,
        _ => return Err("unsupported expression".to_string()),
    })
}

/// What can be recovered from a generated parser source
#[derive(Debug, Default)]
pub struct SourceTables {
    pub consts: BTreeMap<String, Val>,
    /// token stream of the `scanner! { .. }` body
    pub scanner_body: Option<proc_macro2::TokenStream>,
    pub start_index: Option<usize>,
    pub is_lr: bool,
    pub trim: bool,
    pub recovery_disabled: bool,
    pub max_depth: Option<usize>,
    /// the 5th argument of TokenStream::new_with_skip_tokens
    pub stream_k: Option<Val>,
}

struct V<'a>(&'a mut SourceTables);
impl<'ast, 'a> Visit<'ast> for V<'a> {
    fn visit_expr_call(&mut self, c: &'ast syn::ExprCall) {
        if let syn::Expr::Path(p) = &*c.func {
            let name = path_str(&p.path);
            if name == "LLKParser::new" || name == "LRParser::new" {
                self.0.is_lr = name == "LRParser::new";
                if let Some(a) = c.args.first() {
                    if let Ok(v) = eval(a) {
                        self.0.start_index = Some(v.int() as usize);
                    }
                }
            }
            if name == "TokenStream::new_with_skip_tokens" {
                if let Some(a) = c.args.iter().nth(4) {
                    self.0.stream_k = eval(a).ok();
                }
            }
        }
        syn::visit::visit_expr_call(self, c);
    }
    fn visit_expr_method_call(&mut self, m: &'ast syn::ExprMethodCall) {
        let recv = match &*m.receiver {
            syn::Expr::Path(p) => path_str(&p.path),
            _ => String::new(),
        };
        if recv == "llk_parser" || recv == "lr_parser" {
            match m.method.to_string().as_str() {
                "trim_parse_tree" => self.0.trim = true,
                "disable_recovery" => self.0.recovery_disabled = true,
                "set_max_parsing_depth" => {
                    if let Some(a) = m.args.first() {
                        if let Ok(v) = eval(a) {
                            self.0.max_depth = Some(v.int() as usize);
                        }
                    }
                }
                _ => {}
            }
        }
        syn::visit::visit_expr_method_call(self, m);
    }
}

pub fn read_source(src: &str) -> Result<SourceTables, String> {
    let file: syn::File = syn::parse_str(src).map_err(|e| format!("generated source does not parse: {e}"))?;
    let mut st = SourceTables::default();
    for item in &file.items {
        match item {
            syn::Item::Const(c) => {
                if let Ok(v) = eval(&c.expr) {
                    st.consts.insert(c.ident.to_string(), v);
                }
            }
            syn::Item::Static(c) => {
                if let Ok(v) = eval(&c.expr) {
                    st.consts.insert(c.ident.to_string(), v);
                }
            }
            syn::Item::Macro(m) => {
                if path_str(&m.mac.path) == "scanner" {
                    st.scanner_body = Some(m.mac.tokens.clone());
                }
            }
            syn::Item::Fn(f) => {
                if f.sig.ident == "parse_into" {
                    V(&mut st).visit_item_fn(f);
                }
            }
            _ => {}
        }
    }
    Ok(st)
}

// ---------------------------------------------------------------------------------------------
// textual view of the `scanner! { .. }` body
// ---------------------------------------------------------------------------------------------

#[derive(Debug, Clone, PartialEq)]
pub struct ModeText {
    pub name: String,
    /// (pattern, lookahead (positive, pattern), token type)
    pub tokens: Vec<(String, Option<(bool, String)>, usize)>,
    /// (token type, "enter X" | "push X" | "pop")
    pub on: Vec<(usize, String)>,
}

pub fn scanner_text(body: &proc_macro2::TokenStream) -> Result<Vec<ModeText>, String> {
    use proc_macro2::TokenTree as TT;
    let top: Vec<TT> = body.clone().into_iter().collect();
    // Name { mode X { .. } mode Y { .. } }
    let group = top.iter().find_map(|t| if let TT::Group(g) = t { Some(g.clone()) } else { None }).ok_or("no scanner group")?;
    let inner: Vec<TT> = group.stream().into_iter().collect();
    let mut modes = vec![];
    let mut i = 0;
    while i < inner.len() {
        match &inner[i] {
            TT::Ident(id) if id == "mode" => {
                let name = inner.get(i + 1).map(|t| t.to_string()).ok_or("mode name")?;
                let TT::Group(g) = inner.get(i + 2).ok_or("mode body")? else { return Err("mode body".into()) };
                let body: Vec<TT> = g.stream().into_iter().collect();
                let mut m = ModeText { name, tokens: vec![], on: vec![] };
                // split at ';'
                let mut stmt: Vec<TT> = vec![];
                for t in body {
                    if let TT::Punct(p) = &t {
                        if p.as_char() == ';' {
                            parse_stmt(&stmt, &mut m)?;
                            stmt.clear();
                            continue;
                        }
                    }
                    stmt.push(t);
                }
                modes.push(m);
                i += 3;
            }
            _ => i += 1,
        }
    }
    Ok(modes)
}

fn lit_str(t: &proc_macro2::TokenTree) -> Result<String, String> {
    let l: syn::LitStr = syn::parse_str(&t.to_string()).map_err(|e| format!("not a string literal {t}: {e}"))?;
    Ok(l.value())
}

fn parse_stmt(s: &[proc_macro2::TokenTree], m: &mut ModeText) -> Result<(), String> {
    if s.is_empty() {
        return Ok(());
    }
    let words: Vec<String> = s.iter().map(|t| t.to_string()).collect();
    match words[0].as_str() {
        "token" => {
            let pattern = lit_str(&s[1])?;
            let mut la = None;
            let mut j = 2;
            if words.get(j).map(|w| w.as_str()) == Some("followed") {
                la = Some((true, lit_str(&s[j + 2])?));
                j += 3;
            } else if words.get(j).map(|w| w.as_str()) == Some("not") {
                la = Some((false, lit_str(&s[j + 3])?));
                j += 4;
            }
            // => N
            let n = words.get(j + 2).ok_or("token type")?.parse::<usize>().map_err(|e| e.to_string())?;
            m.tokens.push((pattern, la, n));
        }
        "on" => {
            let n = words[1].parse::<usize>().map_err(|e| e.to_string())?;
            m.on.push((n, words[2..].join(" ")));
        }
        other => return Err(format!("unknown scanner statement {other}")),
    }
    Ok(())
}
