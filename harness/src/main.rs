mod bind;
mod common;
mod gram;
mod ls;
mod props;
mod refs;
mod refs_lr;
mod scan;
mod srcval;

use common::Tier;

fn main() {
    // Builder::generate_parser runs `rustfmt` on every generated file (about a second per call
    // through the rustup proxy); a no-op stand-in is put first in PATH
    let fake = common::verif_root().join("tools").join("fakebin");
    let path = std::env::var("PATH").unwrap_or_default();
    unsafe { std::env::set_var("PATH", format!("{}:{}", fake.display(), path)) };
    common::init_out();
    common::install_panic_hook();
    // roomy stacks for the enumeration threads: code under test that recurses (e.g. when dropping a
    // deep tree built by a run the action budget has stopped) must yield a verdict from the checks
    // that are about stack depth (worker subprocesses with a 2 MiB thread stack), not abort the harness
    let _ = rayon::ThreadPoolBuilder::new().stack_size(256 << 20).build_global();
    let args: Vec<String> = std::env::args().collect();
    if args.len() < 2 {
        eprintln!("usage: verif <Cxx> [--tier quick|thorough] [--replay file]");
        std::process::exit(2);
    }
    let id = args[1].clone();
    let mut tier = match std::env::var("VERIF_TIER").as_deref() {
        Ok("thorough") => Tier::Thorough,
        _ => Tier::Quick,
    };
    let mut replay = None;
    let mut i = 2;
    while i < args.len() {
        match args[i].as_str() {
            "--tier" => {
                tier = match args.get(i + 1).map(|s| s.as_str()) {
                    Some("thorough") => Tier::Thorough,
                    Some("quick") => Tier::Quick,
                    _ => {
                        eprintln!("bad tier");
                        std::process::exit(2)
                    }
                };
                i += 1;
            }
            "--replay" => {
                replay = args.get(i + 1).cloned();
                i += 1;
            }
            _ => {}
        }
        i += 1;
    }
    let code = props::run(&id, tier, replay.as_deref());
    std::process::exit(code);
}
