#!/usr/bin/env python3
"""usage: seed_keep.py <seed-id> <name> <property> <detected_by_json>
copies /tmp/seed/<seed-id>-out into /verif/seeded/<name>/ with an augmented meta.json"""
import sys, json, os, shutil
sid, name, prop, det = sys.argv[1], sys.argv[2], sys.argv[3], json.loads(sys.argv[4])
src = f"/tmp/seed/{sid}-out"; dst = f"/verif/seeded/{name}"
os.makedirs(dst, exist_ok=True)
shutil.copy(f"{src}/patch.diff", f"{dst}/patch.diff")
if os.path.isdir(f"{dst}/demo"): shutil.rmtree(f"{dst}/demo")
shutil.copytree(f"{src}/demo", f"{dst}/demo", ignore=shutil.ignore_patterns("target", "*.log"))
meta = json.load(open(f"{src}/meta.json"))
meta["property"] = prop
meta["confirmed_by_me"] = open(f"{src}/confirm.log").read() if os.path.exists(f"{src}/confirm.log") else "see notes"
meta["checks_run_against_it"] = det
json.dump(meta, open(f"{dst}/meta.json", "w"), indent=1)
print("kept", dst)
