#!/bin/bash
# usage: tools/seed_confirm.sh <id>   -- runs the repository test suite in the seed's scratch worktree (change applied)
# with a shared target dir, logs to /tmp/seed/<id>-out/confirm_tests.log
ID=$1
WT=/tmp/seed/$ID
export CARGO_TARGET_DIR=$WT/target
cd $WT || exit 2
git status --short | head -5
( time cargo test --workspace --no-fail-fast --offline ) > /tmp/seed/$ID-out/confirm_tests.log 2>&1
echo "EXIT $?" >> /tmp/seed/$ID-out/confirm_tests.log
grep -E "^test result" /tmp/seed/$ID-out/confirm_tests.log | awk '{p+=$4; f+=$6} END {print "passed",p,"failed",f}'
tail -1 /tmp/seed/$ID-out/confirm_tests.log
