#!/bin/bash
# usage: seed_prepare2.sh ids...   second round: worktree /tmp/seed/<id>b, prompt mentions the first change so a different one is chosen
for ID in "$@"; do
  W=${ID}b
  git -C /repo worktree add --detach /tmp/seed/$W HEAD >/dev/null 2>&1 || { echo "worktree $W failed"; continue; }
  mkdir -p /tmp/seed/$W-out
  python3 - "$ID" "$W" <<'P'
import sys, json, glob
i, w = sys.argv[1], sys.argv[2]
t = open('/verif/tools/seed_PROMPT.tmpl').read()
prop = open(f'/tmp/seed/{i}.property.txt').read()
t = t.replace('__ID__', w).replace('__WT__', f'/tmp/seed/{w}').replace('__PROP__', prop)
prev = []
for d in sorted(glob.glob(f'/verif/seeded/{i}-*')):
    try:
        m = json.load(open(d + '/meta.json'))
        prev.append(m.get('summary', '')[:600])
    except Exception:
        pass
if prev:
    t += "\n\nNote: another developer has already produced the following change(s) for this property. Choose something clearly DIFFERENT: a different function, file or mechanism, and a different kind of triggering input.\n" + "\n".join(f" - {p}" for p in prev) + "\n"
t = t.replace(f'"property": "{w}"', f'"property": "{i}"')
open(f'/tmp/seed/{w}.prompt.txt', 'w').write(t)
P
  echo prepared $W
done
