#!/bin/bash
# builds the parol command line tool WITHOUT hooks into /verif/.build/cli (used by C24, C22, C23)
set -e
export CARGO_NET_OFFLINE=true
cd /repo
CARGO_TARGET_DIR=/verif/.build/cli cargo build --offline -p parol --bin parol
