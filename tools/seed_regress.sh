#!/bin/bash
# usage: tools/seed_regress.sh [names...]   (default: every directory under /verif/seeded)
# Applies each kept seeded change to /repo, runs the quick tier of its property's check, reverts.
# Prints one line per seed: CAUGHT (exit 1 with a VIOLATION line) or MISSED. Never commits anything.
cd /verif || exit 2
if [ -n "$(git -C /repo status --porcelain --untracked-files=no)" ]; then echo "repo not clean"; exit 2; fi
NAMES="$@"
[ -z "$NAMES" ] && NAMES=$(ls seeded)
mkdir -p .build/seed-regress
for n in $NAMES; do
  d=/verif/seeded/$n
  patch=$d/patch.diff
  [ -f $d/patch_ported.diff ] && patch=$d/patch_ported.diff
  prop=$(python3 -c "import json;print(json.load(open('$d/meta.json'))['property'])")
  if ! git -C /repo apply $patch 2>/dev/null; then echo "$n $prop PATCH-DOES-NOT-APPLY"; continue; fi
  VERIF_BUDGET_S=${VERIF_BUDGET_S:-120} ./check $prop --tier quick > .build/seed-regress/$n.log 2>&1
  rc=$?
  nv=$(grep -c '^VIOLATION' .build/seed-regress/$n.log)
  cls=$(grep -A1 '^VIOLATION' .build/seed-regress/$n.log | grep 'class=' | head -1 | sed 's/^ *class=\([^ ]*\).*/\1/')
  git -C /repo checkout -- .
  if [ $rc -eq 1 ] && [ $nv -gt 0 ]; then echo "$n $prop CAUGHT $cls"; else echo "$n $prop MISSED rc=$rc"; fi
done
# leave the harness built from the clean tree
(cd harness && cargo build --release --features hooks >/dev/null 2>&1)
