#!/bin/bash
# usage: seed_confirm_it.sh <id> <crate> <demo_test_file>   (integration-test style demos)
ID=$1; CRATE=$2; DEMO=$3
WT=/tmp/seed/$ID; OUT=/tmp/seed/$ID-out
export CARGO_TARGET_DIR=$WT/target
cd $WT || exit 2
NAME=$(basename $DEMO .rs)
{
echo "### worktree status"; git status --short
echo "### 1. repository test suite WITH the change"
cargo test --workspace --no-fail-fast --offline 2>&1 | grep -E "^test result|FAILED|panicked" | sort | uniq -c
echo "### 2. demo WITH the change (expected: FAIL)"
cp $DEMO crates/$CRATE/tests/$NAME.rs
cargo test -p $CRATE --test $NAME --offline 2>&1 | grep -E "^test |^test result"
echo "### 3. demo WITHOUT the change (expected: PASS)"
git stash -q
cargo test -p $CRATE --test $NAME --offline 2>&1 | grep -E "^test |^test result"
git stash pop -q
rm -f crates/$CRATE/tests/$NAME.rs
rm -rf $WT/target
echo "### done"; git status --short
} > $OUT/confirm.log 2>&1
cat $OUT/confirm.log
