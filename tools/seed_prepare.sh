#!/bin/bash
# usage: seed_prepare.sh ids...   creates /tmp/seed/<id> worktrees of /repo HEAD and prompt files from PROMPT.tmpl
for ID in "$@"; do
  git -C /repo worktree add --detach /tmp/seed/$ID HEAD >/dev/null 2>&1 || { echo "worktree $ID failed"; continue; }
  mkdir -p /tmp/seed/$ID-out
  python3 - "$ID" <<'P'
import sys
i=sys.argv[1]
t=open('/tmp/seed/PROMPT.tmpl').read()
t=t.replace('__ID__',i).replace('__WT__',f'/tmp/seed/{i}').replace('__PROP__',open(f'/tmp/seed/{i}.property.txt').read())
open(f'/tmp/seed/{i}.prompt.txt','w').write(t)
P
  echo prepared $ID
done
