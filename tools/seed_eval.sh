#!/bin/bash
# usage: tools/seed_eval.sh <patch.diff> <tier> <Cxx> [Cyy ...]
# applies a seeded change to /repo, runs the checks, reverts. Never commits anything.
set -u
PATCH=$1; TIER=$2; shift 2
cd /repo || exit 2
if [ -n "$(git status --porcelain --untracked-files=no)" ]; then echo "repo not clean"; exit 2; fi
git apply "$PATCH" || { echo "patch does not apply"; exit 2; }
cd /verif
for c in "$@"; do
  ./check "$c" --tier "$TIER" > /tmp/seed_eval_$c.log 2>&1
  echo "== $c exit=$? $(grep -c '^VIOLATION' /tmp/seed_eval_$c.log) violation lines"
  grep -A1 '^VIOLATION' /tmp/seed_eval_$c.log | head -6
  tail -1 /tmp/seed_eval_$c.log
done
git -C /repo checkout -- .
git -C /repo status --short | head -3
