#!/bin/bash
# usage: seed_confirm_proj.sh <id> <demo_project_dir>   (stand-alone cargo project demos)
ID=$1; PROJ=$2
WT=/tmp/seed/$ID; OUT=/tmp/seed/$ID-out
cd $WT || exit 2
{
echo "### worktree status"; git status --short
echo "### 1. repository test suite WITH the change"
CARGO_TARGET_DIR=$WT/target cargo test --workspace --no-fail-fast --offline 2>&1 | grep -E "^test result|FAILED|panicked" | sort | uniq -c
echo "### 2. demo WITH the change (expected: FAIL)"
(cd $PROJ && CARGO_TARGET_DIR=$WT/target-demo cargo test --offline 2>&1 | grep -E "^test |^test result|^error")
echo "### 3. demo WITHOUT the change (expected: PASS)"
git stash -q
(cd $PROJ && CARGO_TARGET_DIR=$WT/target-demo cargo test --offline 2>&1 | grep -E "^test |^test result|^error")
git stash pop -q
rm -rf $WT/target $WT/target-demo
echo "### done"; git status --short
} > $OUT/confirm.log 2>&1
