#!/usr/bin/env python3
"""Regenerates /verif/MANIFEST.json from the table below; validates it against the schema."""
import json, subprocess, sys, os

ROOT = os.path.dirname(os.path.dirname(os.path.abspath(__file__)))

# id -> (category, technique, text, note, design_ref)
CHECKS = {}

def add(pid, cat, technique, text, note, ref=None):
    CHECKS[pid] = (cat, technique, text, note, ref or f"DESIGN.md section 5, {pid}")

BIND = ("generated parser source is interpreted in process: tables are read from the generated Rust text with syn, "
        "the scanner is built with scnr2_generate's public construction (what the scanner! macro runs); rustc's constant "
        "evaluation is the only replaced step (cross-checked by C21/C22)")

add("C01", "exploration", "bounded exhaustive enumeration of grammars x inputs against a reference language L<=n",
    "Every grammar of a canonical small-scope space (BNF and EBNF) with every lookahead limit of a menu is run through the real pipeline; for every accepted one every token string up to length n (plus a foreign token, with/without blanks, recovery on/off) is parsed by the real scanner + LLKParser and the verdict compared with membership in the Kleene-iterated language of the grammar as written.",
    BIND)
add("C02", "exploration", "bounded exhaustive enumeration; derivation-tree checker as oracle",
    "For every sentence of every accepted grammar of the C01 space the tree delivered through TreeConstruct and the recorded action calls are checked by definition: each inner node is a production of the transformed grammar, actions are the post-order list of applications, children slices equal the node children, yield equals the input.",
    BIND)

NOT_BUILT = {}

def main():
    props = [json.loads(l)["id"] for l in open(os.path.join(ROOT, "properties.jsonl"))]
    checks = []
    for pid in props:
        if pid not in CHECKS:
            continue
        cat, tech, text, note, ref = CHECKS[pid]
        checks.append({
            "property_id": pid,
            "quick_cmd": f"./check {pid} --tier quick",
            "thorough_cmd": f"./check {pid} --tier thorough",
            "evidence_file": f"/verif/evidence/{pid}.json",
            "replay_cmd_template": f"./check {pid} --replay {{path}}",
            "engine": "verif-harness",
            "level_claimed": {"category": cat, "text": text, "design_ref": ref},
            "level_note": note,
            "technique": tech,
        })
    na = [{"property_id": p, "reason": NOT_BUILT.get(p, "check not built yet in this revision of /verif (work in progress; see DESIGN.md section 5 for the planned exhaustive check)")}
          for p in props if p not in CHECKS]
    hooks_commits = subprocess.run(["git", "-C", "/repo", "log", "--format=%h %s", "--grep=^verif hooks"],
                                   capture_output=True, text=True).stdout.strip().splitlines()
    m = {
        "version": 1,
        "setup_cmd": "./setup.sh",
        "hooks": {
            "guard": "cargo feature verif_hooks (crates parol_runtime, parol, parol-ls); off by default",
            "enable": "harness/Cargo.toml feature `hooks` = parol/verif_hooks + parol_runtime/verif_hooks; parol-ls is built with --features verif_hooks into /verif/.build/ls",
            "baseline_off_cmd": "cd /repo && cargo test --workspace --no-fail-fast --offline",
            "source_commits": [c.split()[0] for c in hooks_commits],
            "add_only": True,
        },
        "engines": [
            {"name": "verif-harness", "path": "/verif/harness", "serves_properties": sorted(CHECKS),
             "kind_free_text": "Rust crate linking parol and parol_runtime by path; hand-rolled enumerators, BFS/DFS explorers, reference models; drives the real code in process"},
        ],
        "checks": checks,
        "notes": "All checks are bounded exhaustive explorations of the real code (no sampling, no solver). Known findings: /verif/known_findings.json. See DESIGN.md.",
        "not_applicable": na,
    }
    out = os.path.join(ROOT, "MANIFEST.json")
    json.dump(m, open(out, "w"), indent=1)
    try:
        import jsonschema
        jsonschema.validate(m, json.load(open("/root/.vp/MANIFEST.schema.json")))
        print("MANIFEST.json valid;", len(checks), "checks,", len(na), "not_applicable")
    except ImportError:
        print("jsonschema not available; not validated")

if __name__ == "__main__":
    main()
