#!/usr/bin/env python3
"""Regenerates /verif/MANIFEST.json from the table below; validates it against the schema."""
import json, subprocess, sys, os

ROOT = os.path.dirname(os.path.dirname(os.path.abspath(__file__)))

# id -> (category, technique, text, note, design_ref)
CHECKS = {}

def add(pid, cat, technique, text, note, ref=None):
    CHECKS[pid] = (cat, technique, text, note, ref or f"DESIGN.md section 5, {pid}")

BIND = ("generated parser source is interpreted in process: tables are read from the generated Rust text with syn, "
        "the scanner is built with scnr2_generate's public construction (what the scanner! macro runs); rustc's constant "
        "evaluation is the only replaced step (cross-checked by C21/C22)")

add("C01", "exploration", "bounded exhaustive enumeration of grammars x inputs against a reference language L<=n",
    "Every grammar of a canonical small-scope space (BNF and EBNF) with every lookahead limit of a menu is run through the real pipeline; for every accepted one every token string up to length n (plus a foreign token, with/without blanks, recovery on/off) is parsed by the real scanner + LLKParser and the verdict compared with membership in the Kleene-iterated language of the grammar as written.",
    BIND)
add("C02", "exploration", "bounded exhaustive enumeration; derivation-tree checker as oracle",
    "For every sentence of every accepted grammar of the C01 space the tree delivered through TreeConstruct and the recorded action calls are checked by definition: each inner node is a production of the transformed grammar, actions are the post-order list of applications, children slices equal the node children, yield equals the input.",
    BIND)

add("C03", "exploration", "bounded exhaustive enumeration of LALR grammars x inputs against L<=n; reduction-replay derivation checker",
    "Every productive/reachable canonical BNF grammar (left-recursive and with recursive start symbols) and EBNF body of the space is given to the LALR(1) pipeline inside catch_unwind; for each conflict-free table every token string up to length n goes through the real scanner + LRParser; verdict vs L<=n; on success the reported reductions are replayed on a stack and must build exactly one tree rooted at the start symbol whose yield is the input, equal to the delivered tree.",
    BIND)
add("C04", "exploration", "bounded exhaustive enumeration; textbook LALR(1) construction and L<=n as oracles",
    "Same grammar space as C03 including ambiguous grammars. A reference LALR(1) construction (canonical LR(1) item sets merged by core) decides whether a conflict exists; if so parol must reject or report a resolved conflict. Every input accepted by any table parol builds (conflicts resolved or not) must be in L<=n.",
    BIND + "; the reference LALR(1) construction is harness code written from the textbook definition")
add("C05", "exploration", "bounded exhaustive enumeration; strong-LL(k) decided by definition",
    "All well-formed grammars of the space x lookahead limits K: calculate_lookahead_dfas / decidable must accept exactly when every non-terminal has pairwise disjoint FIRST_k(alpha)(+)FOLLOW_k(A) for some k<=K (reference: Kleene iteration on plain string sets), with the minimal k per non-terminal.",
    "reference FIRST/FOLLOW are least fixpoints over BTreeSet<Vec<u16>> written in the harness; terminal numbering from Cfg::get_ordered_terminals")
add("C06", "model_checking", "explicit-state BFS over cache request sequences on the real FirstCache/FollowCache; invariant = equality with FIRST_k/FOLLOW_k by definition",
    "Per grammar a breadth-first search over all sequences of first(k)/follow(k) requests (k<=Kb, depth<=d) on fresh real cache objects; states are deduplicated on the content of all filled cache slots; in every reached state every filled slot must equal the reference set. States/transitions are reported; every transition is an execution of the real code.",
    "hook H5 (read access to a FollowCache entry); reference sets as in C05; at k=0 only 'subset of {eps,$}' is demanded")
add("C07", "exploration", "bounded exhaustive enumeration of token strings through generated and unminimized automata",
    "For every non-terminal of every accepted grammar all token strings over T+{$} up to length k+1 are run through the automaton recovered from the generated source (minimized) and the public unminimized LookaheadDFA; the production reached must be p exactly when the string is in p's reference lookahead set.",
    BIND)
add("C08", "exploration", "bounded exhaustive enumeration of token buffers through the real LookaheadDFA::eval",
    "For every non-terminal of every accepted grammar every token buffer the real scanner/TokenStream produces from inputs of <= k+2 tokens over T plus a foreign token is given to the real eval(); Ok(p) iff the buffer begins with a reference lookahead string of p, Err otherwise.",
    BIND)
add("C09", "exploration", "bounded exhaustive enumeration of EBNF bodies; per-non-terminal L<=n equality",
    "Every EBNF body up to a size bound (nested groups/optionals/repetitions, empty alternatives, user non-terminals named like parol's helpers) for both grammar types: the canonicalized Cfg must generate, for every user non-terminal, exactly the L<=n of the harness's own tree.",
    "L<=n by Kleene iteration over BTreeSet<Vec<u8>> in the harness")
add("C10", "exploration", "bounded exhaustive enumeration; L<=n equality, prefix test, watchdog",
    "left_factor is run (under a watchdog) on every productive/reachable BNF grammar of the space and on every canonicalized EBNF body: language of every original non-terminal unchanged, no two alternatives of one non-terminal start with an equal Symbol, new names fresh (user names SSuffix, SSuffix0.. included).",
    "parol's own Symbol equality defines 'same symbol'")
add("C11", "exploration", "bounded exhaustive enumeration; closures from the definitions",
    "For every canonical BNF grammar of the space (non-productive, unreachable, hidden-left-recursive ones included) the four public analysis functions must equal closures computed from the definitions and check_and_transform_grammar must return the matching error kind naming exactly the reference set, Ok otherwise.",
    "reference closures in harness/src/gram.rs")
add("C12", "exploration", "bounded exhaustive enumeration; L<=n equality and shape test",
    "For every productive/reachable grammar (recursive start symbols included) the grammar handed to LALR(1) table construction must have the same L<=n, a start symbol with exactly one production that occurs on no right-hand side.",
    "L<=n reference")

add("C19", "exploration", "bounded exhaustive enumeration of inputs incl. long error families; catch_unwind, action budget and hang monitor as oracle",
    "Every accepted grammar of the C01/C03 spaces plus special grammars (terminals matching the empty string, overlapping regexes, comments) x every text up to length n over terminals, a foreign character, blank, a 2-byte character, plus error families of 1..150 foreign tokens, plus (in worker subprocesses, on a thread with the default 2 MiB stack) recursive grammars with inputs nested 20 000 (thorough 100 000) levels deep, valid / truncated / with a surplus or foreign token, recovery on and off: each run must return Ok or Err without panic (debug assertions and overflow checks on), within an action budget and a 20 s wall-clock monitor, reporting at most 101 errors.",
    BIND)
add("C20", "model_checking", "exhaustive exploration of option settings (operations) per (grammar, input) against the baseline run of the real parser",
    "For every (grammar, input) of the space the baseline run is compared with runs under every option setting: trim, recovery off, both, every depth limit from 0 to #applications+3 and 10^6 (with/without trim), and four parsers generated with the options baked into the source. Verdict and action trace must be equal unless MaxParsingDepthExceeded is returned, which must be monotone in the limit, absent at 10^6 and never a panic.",
    BIND)

SCAN = "reference tokenizer = documented rules implemented in the harness with the regex crate (a different engine than scnr2) on anchored slices; scanner under test built from the generated scanner! text"
add("C13", "model_checking", "exhaustive enumeration of scanner configurations x texts against a reference tokenizer, and exhaustive exploration of lookahead sizes and consumption schedules of the real TokenStream",
    "Every ordered selection of up to 2 (thorough 3) terminals from a menu of 15 colliding patterns, and every combination of enter/push/pop over 2-3 scanner states, x every text up to length n: the tokens the real TokenStream hands out must equal the reference tokenizer (longest match, first declared on ties, lookahead, state switches, pop on empty stack). The same tokens must be delivered for k = 1, 2, 3 and under every explored schedule of lookahead(i)/consume operations.",
    SCAN)
add("C14", "exploration", "bounded exhaustive enumeration of configurations x texts incl. multi-byte characters; geometric checks recomputed from the text",
    "For every configuration (plain, allow-unmatched, comments, auto-newline/whitespace off; LL and LALR) and every text up to length n over an alphabet with CR, LF, 2- and 4-byte characters: the delivered tokens are contiguous from 0 to the end, carry input[start..end], report line/column recomputed from the text; the leaves of every successful parse tree are exactly these tokens.",
    "line/column convention: 1-based, LF-based, columns in characters (measured from scnr2 on ASCII, then demanded everywhere)")
add("C15", "exploration", "bounded exhaustive enumeration of delimiter pairs x texts against naive first-occurrence search",
    "13 block-comment delimiter pairs covering every border structure of 1-3 character ends and 4 line-comment markers, in raw and escaped spelling, x every text up to length n over the delimiter characters: delivered tokens must equal the reference where a block comment ends at the first occurrence of its end delimiter and a line comment at the end of its line (LF / CR LF) inclusive.",
    SCAN + "; a lone CR is not treated as a line end (weaker reading)")
add("C16", "exploration", "bounded exhaustive enumeration of scanner settings x texts; reference tokenizer decides which characters are unmatched",
    "All combinations of auto-newline, auto-whitespace, allow-unmatched, three grammar bodies, LL/LALR and two-state configurations x every text up to length n over {a,b,blank,tab,LF,CR,?,2-byte char}: unmatched text in a state without allow-unmatched must make the parse fail; with allow-unmatched the verdict is that of the matched tokens alone and the unmatched text is a tree leaf.",
    SCAN)
add("C17", "exploration", "bounded exhaustive enumeration of skip-item placements; self-comparison with the undecorated input",
    "For template grammars (EBNF shapes, left recursion, %skip/%push/%pop state-skip template; LL and LALR) and a sample of the enumerated grammars, every word up to length n and every placement of up to two skip items (blank, LF, tab, line comment, block comments, state-skipped tokens) into its gaps: verdict and action trace equal those of the undecorated word, on_comment receives exactly the comments in order, the tree leaves spell the input.",
    BIND)

add("C18", "exploration", "bounded exhaustive enumeration of grammars with same-text terminals; cross-artefact number equality",
    "Every ordered pair (and triples) of terminals from a pool with equal texts in different quoting styles and lookaheads in 10 skeletons, scanner-state configurations, %skip templates and a slice of the enumerated spaces, LL and LALR: the number the scanner! rules give each terminal identity (first-occurrence order) must be the number used by PRODUCTIONS (and the analysis must agree with a reference analysis that tells the terminals apart: LL decision and lookahead sets against the generated automata, a token-level run of the generated LR table against L<=4; a grammar rejected by the analysis must not be fine for the reference), the export model productions and terminal table; automata / LR tables, skip lists and transitions may only refer to terminals valid there.",
    BIND)
add("C21", "translation_validation", "exhaustive enumeration of programs (grammars); field-by-field comparison of three encodings of the same parser",
    "For every accepted grammar of the C18 space the tables recovered from the generated Rust source, the export model JSON and the in-memory analysis results are compared: names, start index, productions, push flags, lookahead automata (identical tables source/model; same language as the analysis automaton on all strings up to k), LR actions via the action index and gotos, the model's terminals (expanded pattern, lookahead pattern and polarity, scanner states) against the rules of the generated scanner! text, transitions (kind and target), comment lists, scanner modes, built-in rules, error rule, transitions, skip lists, index ranges.",
    "the generated source is read with syn; the export model through serde_json")
add("C25", "exploration", "bounded exhaustive enumeration of annotated grammars; render + re-read structural equality",
    "Bodies x terminal pairs x per-symbol decorations (^, @member, : type) x declaration headers x LL/LALR, two-state scanner configurations with every directive, plus the C18 space: each grammar, as read and after transformation, is rendered with render_par_string and read back; start symbol, grammar type, every production symbol (text, kind class, states, clipping, member, user type, lookahead), declarations and every ScannerConfig field must be equal.",
    "production / symbol attributes other than clipping are rendered as comments by design and are not compared")
add("C26", "exploration", "bounded exhaustive enumeration of grammar texts at token, production-body, declaration and character level plus deep-nesting families in worker subprocesses; catch_unwind / exit status as oracle",
    "Seven families (the C18 space of terminals with equal texts in different quoting styles, PAR token sequences, production bodies from a menu incl. broken literals and undefined names, declaration lists incl. duplicates and undefined references, every BNF/EBNF grammar of the small spaces well-formed or not, character strings, m-fold nesting in subprocesses with the CLI's stack size), each through the whole pipeline for LL and LALR with K in {1,2,10}: every stage must return Ok or Err.",
    "pipeline driven through the public API used by Builder/CLI; debug assertions and overflow checks enabled in the harness build")
add("C31", "exploration", "exhaustive enumeration of sequence pairs against a textbook DP",
    "All ordered pairs of token-type sequences over 3 symbols up to length 5 (thorough 6) and over 4 symbols up to length 4 (5) are given to the crate-private Recovery::levenshtein_distance (hook H1): the script applied as adjust_token_stream applies it must turn act into exp, its non-keep operations must equal the returned distance, which must equal the DP edit distance.",
    "hook H1")
add("C32", "model_checking", "explicit-state BFS over operation sequences on the real packed value next to a Vec model",
    "For alphabet sizes at both sides of every power of two up to the 12-bit limit a breadth-first search over operation sequences (new, eps, end, clear, push, k_concat with eps/end/a sequence/itself, of) on the real Terminals value; after every operation every observer (len, get, iter, is_eps, is_k_complete, k_len) must agree with the sequence model; all reached values are compared pairwise for equality and ordering; KTuple construction paths and k_concat are checked the same way.",
    "KTuple equality is demanded only between tuples reporting the same k() (weaker reading)")

LS = "the language server is driven through hooks H3/H4: a JSON-lines interpreter inside a hooks-on parol-ls binary that feeds real LSP notifications/requests to the real Server over lsp_server::Connection::memory()"
add("C27", "exploration", "bounded exhaustive enumeration of comment placements x formatting options through the real formatting handler; parol's own reader, comment list and idempotence as oracles",
    "The 23 repository formatter inputs and 6 grammars using every PAR feature, the latter with one comment in every token gap, two comments of every ordered pair of kinds in one gap, and two comments in every pair of gaps, x all 12 option combinations: the formatted text must be read by parol as a structurally equal GrammarConfig, carry the same comment sequence, and be a fixpoint of the formatter.",
    LS)
add("C28", "exploration", "bounded exhaustive enumeration of texts x every character position x fresh names through the real prepareRename/rename handlers; alpha-renamed GrammarConfig as oracle",
    "Grammars covering every syntactic place an identifier can refer to a non-terminal or scanner state (and name sharing between kinds): for every position and three fresh names the returned edits are applied; parol must read the result as the original grammar with exactly that symbol renamed; start symbol and INITIAL must be refused; every other symbol must be renameable somewhere.",
    LS)
add("C29", "model_checking", "exhaustive depth-first search over the schedules of background analyses against edit histories, executed on the real Server under a controlled gate (stateless re-execution of every prefix); conformance run with real threads",
    "For every history of up to 2 (thorough 3) open/change notifications over 7 document kinds every schedule is explored: each spawned analysis either completes before its handler continues or is queued and run at any later point. On every complete schedule the last published diagnostics must carry the final version and be empty exactly when the final text alone has none. A free-running run with real threads checks that the observed publish sequence is among the explored ones.",
    LS + "; a background analysis is one atomic step (its closure owns its inputs and has one visible effect)")
add("C30", "exploration", "bounded exhaustive enumeration of documents x every position x every request kind through the real handlers; panic capture / process liveness / offset range as oracle",
    "For valid, invalid, empty, CRLF, lone-CR, multi-byte and unterminated documents every position (incl. beyond the last line and column, u32::MAX) is sent to hover, definition, prepareRename, rename, codeAction (server and synthetic diagnostics), documentSymbol and formatting: no panic, process alive; pos_to_offset within the text and on a character boundary.",
    LS)
add("C33", "exploration", "bounded exhaustive enumeration of name menus through the real Builder; syn as oracle for validity and distinctness",
    "Every ordered pair of non-terminal names from a menu chosen from what naming_helper / generate_name / terminal_name_generator special-case, every pair of terminal texts that map to equal, empty or digit-leading names, every pair of member names, LL and LALR, generated by the real Builder: both files must parse with syn; terminal names are identifiers and distinct; type names, members per struct, variants per enum, methods per trait/impl are pairwise distinct.",
    "rustfmt is replaced by a no-op (formatting is not under test); whether generated code also type-checks is C22's business")
add("C34", "exploration", "bounded exhaustive enumeration of texts at token and character level; verdict equality of two independently written parsers",
    "Every PAR token sequence up to length 3 (thorough 4) in four frames, every character string up to length 3 (4) over 20 characters in three frames, and the repository inputs: parol's grammar parser reports a syntax error exactly when the language server's parser does.",
    LS + " (command `parse`)")

add("C22", "exploration", "bounded enumeration of annotated grammars x generator options, generated by the real Builder and compiled by rustc as modules of one crate; rustc as oracle",
    "EBNF bodies with clipping, member names, terminal user types, nested optionals/repetitions, recursion x LL/LALR x generator options, %t_type, terminal texts that are meta characters of the generated Rust source, comments and scanner states, non-terminal / member names the generated code uses itself, and a slice of the enumerated spaces: cargo build of the batch must succeed; failing modules are identified from rustc's messages, reported and excluded, and the batch is rebuilt.",
    "the size of this space is set by compile time; user types are limited to terminals (conversions for non-terminal user types are hand-written per grammar)")
add("C23", "exploration", "bounded exhaustive enumeration of inputs against compiled generated parsers; token sequence / option presence recomputed from the input; conformance with the in-process binding",
    "For the C22 modules that come with an alphabet every token string up to length 4 is parsed by the rustc-compiled generated parser with a user action on the start symbol that records its argument: on accepted inputs the action is called once (once per occurrence for a recursive start symbol), the tokens in the AST in order are the non-clipped input tokens, optional parts are Some exactly when their terminal occurs, and verdicts equal those of the in-process binding of the same source.",
    "AST content is read from its Debug rendering")
add("C24", "model_checking", "depth-first search over all iteration orders of the hash maps in group_by/find_prefix (choice oracle behind hook H2) with a deviation bound; multi-process runs of the un-hooked CLI as seam conformance",
    "For grammars with tie situations (equal prefix groups, several non-terminals to factor, many equal final states, several scanner transitions) every choice sequence with at most 1 (thorough 2) deviations from insertion order is executed on the real pipeline; expanded grammar and parser source must be byte-identical to the default order. The un-hooked command line tool is additionally run in separate processes and must produce identical files.",
    "HashMap may iterate in any order; other std HashMap/HashSet uses in the generators are covered only by the multi-process runs (sampling of hash seeds, evidence for the seam)")

NOT_BUILT = {}

def main():
    props = [json.loads(l)["id"] for l in open(os.path.join(ROOT, "properties.jsonl"))]
    checks = []
    for pid in props:
        if pid not in CHECKS:
            continue
        cat, tech, text, note, ref = CHECKS[pid]
        checks.append({
            "property_id": pid,
            "quick_cmd": f"./check {pid} --tier quick",
            "thorough_cmd": f"./check {pid} --tier thorough",
            "evidence_file": f"/verif/evidence/{pid}.json",
            "replay_cmd_template": f"./check {pid} --replay {{path}}",
            "engine": "verif-harness",
            "level_claimed": {"category": cat, "text": text, "design_ref": ref},
            "level_note": note,
            "technique": tech,
        })
    na = [{"property_id": p, "reason": NOT_BUILT.get(p, "check not built yet in this revision of /verif (work in progress; see DESIGN.md section 5 for the planned exhaustive check)")}
          for p in props if p not in CHECKS]
    hooks_commits = subprocess.run(["git", "-C", "/repo", "log", "--format=%h %s", "--grep=^verif hooks"],
                                   capture_output=True, text=True).stdout.strip().splitlines()
    m = {
        "version": 1,
        "setup_cmd": "./setup.sh",
        "hooks": {
            "guard": "cargo feature verif_hooks (crates parol_runtime, parol, parol-ls); off by default",
            "enable": "harness/Cargo.toml feature `hooks` = parol/verif_hooks + parol_runtime/verif_hooks; parol-ls is built with --features verif_hooks into /verif/.build/ls",
            "baseline_off_cmd": "cd /repo && cargo test --workspace --no-fail-fast --offline",
            "source_commits": [c.split()[0] for c in hooks_commits],
            "add_only": True,
        },
        "engines": [
            {"name": "verif-harness", "path": "/verif/harness", "serves_properties": sorted(CHECKS),
             "kind_free_text": "Rust crate linking parol and parol_runtime by path; hand-rolled enumerators, BFS/DFS explorers, reference models; drives the real code in process"},
        ],
        "checks": checks,
        "notes": "All checks are bounded exhaustive explorations of the real code (no sampling, no solver). Known findings: /verif/known_findings.json. See DESIGN.md.",
        "not_applicable": na,
    }
    out = os.path.join(ROOT, "MANIFEST.json")
    json.dump(m, open(out, "w"), indent=1)
    try:
        import jsonschema
        jsonschema.validate(m, json.load(open("/root/.vp/MANIFEST.schema.json")))
        print("MANIFEST.json valid;", len(checks), "checks,", len(na), "not_applicable")
    except ImportError:
        print("jsonschema not available; not validated")

if __name__ == "__main__":
    main()
