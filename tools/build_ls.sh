#!/bin/bash
# builds parol-ls with the verification hooks into /verif/.build/ls (used by C27-C30, C34)
set -e
export CARGO_NET_OFFLINE=true
cd /repo
CARGO_TARGET_DIR=/verif/.build/ls cargo build --offline -p parol-ls --features verif_hooks
