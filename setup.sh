#!/bin/bash
# Builds the verification harness offline against /repo's working tree.
set -e
cd "$(dirname "$0")"
export CARGO_NET_OFFLINE=true
mkdir -p .build evidence replays
(cd harness && cargo build --release --features hooks)
if [ -x tools/build_ls.sh ]; then tools/build_ls.sh; fi
if [ -x tools/build_cli.sh ]; then tools/build_cli.sh; fi
echo setup ok
