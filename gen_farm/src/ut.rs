//! user types available to the generated code (terminals only)
use parol_runtime::{Span, ToSpan, Token};

#[derive(Debug, Clone, PartialEq, Eq)]
pub struct T(pub std::string::String, pub Span);

impl<'t> TryFrom<&Token<'t>> for T {
    type Error = anyhow::Error;
    fn try_from(t: &Token<'t>) -> std::result::Result<Self, Self::Error> {
        Ok(T(t.text().to_string(), t.span()))
    }
}

impl ToSpan for T {
    fn span(&self) -> Span {
        self.1.clone()
    }
}
